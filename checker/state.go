package main

// state.go: effect rules on package-level state, shared by every property. Every property of this
// library says that a result is a function of the call's arguments ("for every input ..."). Data
// that one call leaves in package-level memory and another call reads breaks that in three concrete,
// statically visible ways, each of which is positive evidence on its own:
//
//   STATE/scratch   a function reachable from the property's anchors stores argument-dependent data
//                   into memory reachable from a package-level variable, outside a package
//                   initialiser, a sync.Once body or a mutex: two calls that overlap share the
//                   memory, so each reads what the other wrote.
//   STATE/memo-key  a value is remembered under a key (package-level map or sync.Map) although it is
//                   computed from an argument (or a part of one) that the key is not computed from:
//                   a later call with the same key and a different argument gets the earlier answer.
//   STATE/go-capture a goroutine is started on a function literal that reads a local variable of the
//                   starting function, and the starting function assigns that same variable again
//                   afterwards (a later branch or iteration) with no synchronisation in between: the
//                   goroutine sees whichever value is there when it gets to run.
//   STATE/non-blocking-send  a value is sent in a select that has a default branch.
//   STATE/loopvar-capture  a function literal that outlives its iteration captures a loop variable that
//                   is one variable for the whole loop (the module's language version predates per-iteration
//                   loop variables): every literal sees the last element.
//   STATE/format    text taken from the arguments is used as the FORMAT of a fmt call.
//   STATE/pool      memory of an object taken from a sync.Pool is still referenced by the function's
//                   result although the object is handed back to the pool.
//
// What is not evidence (reported UNDECIDED, never VIOLATION): a write whose value does not depend on
// an argument (lazy initialisation), a write under a lock, a value whose dependencies are not visible.

import (
	"go/ast"
	"go/constant"
	"fmt"
	"go/token"
	"go/types"
	"os"
	"sort"
	"strings"
	"unicode"

	"golang.org/x/tools/go/ssa"
)

// stateAnchors: package, receiver type ("" for a function), name of each property's exported entry points.
var stateAnchors = func() map[string][][3]string {
	gb := [][3]string{{"io/genbank", "", "Parse"}, {"io/genbank", "", "ParseMulti"}, {"io/genbank", "", "ParseFlat"}, {"io/genbank", "", "Build"}, {"io/genbank", "", "BuildMulti"}, {"", "Sequence", "AddFeature"}, {"", "Feature", "GetSequence"}}
	sh := [][3]string{{"seqhash", "", "Hash"}, {"seqhash", "", "RotateSequence"}}
	cd := [][3]string{{"transform/codon", "", "Translate"}, {"transform/codon", "", "Optimize"}, {"transform/codon", "Table", "OptimizeTable"}, {"transform/codon", "", "GetCodonTable"}, {"transform/codon", "", "AddCodonTable"}, {"transform/codon", "", "CompromiseCodonTable"}, {"transform/codon", "", "ParseCodonJSON"}, {"transform/codon", "", "ReadCodonJSON"}, {"transform/codon", "", "WriteCodonJSON"}}
	cl := [][3]string{{"clone", "", "CircularLigate"}, {"clone", "", "GoldenGate"}, {"clone", "", "CutWithEnzyme"}, {"clone", "", "CutWithEnzymeByName"}}
	pr := [][3]string{{"primers", "", "NucleobaseDeBruijnSequence"}, {"primers", "", "CreateBarcodes"}, {"primers", "", "CreateBarcodesWithBannedSequences"}}
	tm := [][3]string{{"primers", "", "SantaLucia"}, {"primers", "", "MarmurDoty"}, {"primers", "", "MeltingTemp"}}
	return map[string][][3]string{
		"C01": gb, "C02": gb, "C03": gb, "C04": sh, "C05": sh, "C12": sh,
		"C06": cd, "C07": append(append([][3]string{}, cd...), [3]string{"random", "", "ProteinSequence"}), "C08": cd, "C18": cd,
		"C09": cl, "C10": cl,
		"C11": {{"transform", "", "ReverseComplement"}, {"transform", "", "Complement"}, {"transform", "", "Reverse"}, {"transform/variants", "", "AllVariantsIUPAC"}, {"checks", "", "IsPalindromic"}},
		"C13": {{"io/fasta", "", "Parse"}, {"io/fasta", "", "ParseConcurrent"}, {"io/fasta", "", "Build"}, {"io/fasta", "", "Read"}, {"io/fasta", "", "ReadGz"}, {"io/fasta", "", "Write"}},
		"C14": {{"io/gff", "", "Parse"}, {"io/gff", "", "Build"}, {"", "Sequence", "AddFeature"}, {"", "Feature", "GetSequence"}},
		"C15": {{"io/polyjson", "", "Parse"}, {"io/polyjson", "", "Read"}, {"io/polyjson", "", "Write"}, {"", "Sequence", "AddFeature"}, {"", "Feature", "GetSequence"}},
		"C16": {{"io/rebase", "", "Parse"}, {"io/rebase", "", "Read"}, {"io/rebase", "", "Export"}},
		"C17": pr, "C19": tm,
		"C20": {{"io/uniprot", "", "Parse"}, {"io/uniprot", "", "Read"}},
	}
}()

// stateFamily: module functions reachable from the functions the property's rules analysed.
func stateFamily(c *Ctx) []*ssa.Function {
	var roots []*ssa.Function
	for _, f := range c.W.moduleFuncs() {
		if c.Funcs[f.String()] {
			roots = append(roots, f)
		}
	}
	// the property's exported entry points, whether or not a rule got as far as analysing them
	for _, a := range stateAnchors[c.Prop] {
		var f *ssa.Function
		if a[1] == "" {
			f = c.W.fn(a[0], a[2])
		} else {
			f = c.W.method(a[0], a[1], a[2])
		}
		if f != nil {
			roots = append(roots, f)
		}
	}
	// methods the encoders and decoders call by reflection (UnmarshalXML, UnmarshalText, MarshalJSON, ...) on
	// the types of the anchors' packages: no call site names them, so they are roots of their own
	pkgs := map[string]bool{}
	for _, a := range stateAnchors[c.Prop] {
		pkgs[a[0]] = true
	}
	for rel := range pkgs {
		sp := c.W.spkg(rel)
		if sp == nil {
			continue
		}
		for _, m := range sp.Members {
			t, isT := m.(*ssa.Type)
			if !isT {
				continue
			}
			for _, recv := range []types.Type{t.Type(), types.NewPointer(t.Type())} {
				ms := c.W.Prog.MethodSets.MethodSet(recv)
				for k := 0; k < ms.Len(); k++ {
					switch ms.At(k).Obj().Name() {
					case "UnmarshalXML", "UnmarshalJSON", "UnmarshalText", "UnmarshalXMLAttr", "MarshalXML", "MarshalJSON", "MarshalText":
						if f := c.W.Prog.MethodValue(ms.At(k)); f != nil && f.Blocks != nil {
							roots = append(roots, f)
						}
					}
				}
			}
		}
	}
	var out []*ssa.Function
	for _, g := range funcsSorted(reachable(roots...)) {
		if g.Blocks == nil || !inModule(g) || g.Synthetic != "" {
			continue
		}
		n := g.Name()
		if n == "init" || strings.HasPrefix(n, "init#") || (g.Parent() != nil && strings.HasPrefix(g.Parent().Name(), "init")) {
			continue
		}
		if strings.HasSuffix(c.W.pos(g.Pos()), "_test.go") || strings.Contains(c.W.pos(g.Pos()), "_test.go:") {
			continue
		}
		// a helper that only package initialisers call (registering the default tables from init()) runs
		// before any call of the API, once, on one goroutine: its writes are initialisation
		if initOnly(c.W, g) {
			initOnlyFns[c] = append(initOnlyFns[c], g)
			continue
		}
		out = append(out, g)
	}
	return out
}

// globalRoot: the package-level variable of the module that the address or reference v is derived
// from by field, element, slice and load steps only (nil if none, or if a local intervenes).
func globalRoot(v ssa.Value) *ssa.Global {
	for depth := 0; depth < 32; depth++ {
		switch x := v.(type) {
		case *ssa.Global:
			if x.Pkg != nil && strings.HasPrefix(x.Pkg.Pkg.Path(), modPath) {
				return x
			}
			return nil
		case *ssa.FieldAddr:
			v = x.X
		case *ssa.IndexAddr:
			v = x.X
		case *ssa.Field:
			v = x.X
		case *ssa.Index:
			v = x.X
		case *ssa.Slice:
			v = x.X
		case *ssa.Lookup:
			v = x.X
		case *ssa.ChangeType:
			v = x.X
		case *ssa.UnOp:
			if x.Op.String() != "*" {
				return nil
			}
			v = x.X
		default:
			return nil
		}
	}
	return nil
}

// guardedBy: the function (or the function it is a closure of) takes a lock, or is the body handed
// to (*sync.Once).Do: its writes to package state are serialised by construction.
func guardedBy(g *ssa.Function) string {
	for f := g; f != nil; f = f.Parent() {
		locked := ""
		eachInstr(f, func(i ssa.Instruction) {
			if ci, ok := i.(ssa.CallInstruction); ok {
				switch calleeName(ci) {
				case "(*sync.Mutex).Lock", "(*sync.RWMutex).Lock", "(*sync.RWMutex).RLock":
					locked = "a mutex"
				}
			}
		})
		if locked != "" {
			return locked
		}
	}
	if p := g.Parent(); p != nil {
		once := false
		eachInstr(p, func(i ssa.Instruction) {
			ci, ok := i.(ssa.CallInstruction)
			if !ok || calleeName(ci) != "(*sync.Once).Do" {
				return
			}
			for _, a := range ci.Common().Args {
				if mc, ok := a.(*ssa.MakeClosure); ok && mc.Fn == ssa.Value(g) {
					once = true
				}
				if fn, ok := a.(*ssa.Function); ok && fn == g {
					once = true
				}
			}
		})
		if once {
			return "sync.Once"
		}
	}
	return ""
}

// onceBodies: named functions handed to (*sync.Once).Do anywhere in the module.
func onceBodies(w *World) map[*ssa.Function]bool {
	out := map[*ssa.Function]bool{}
	for _, f := range w.moduleFuncs() {
		eachInstr(f, func(i ssa.Instruction) {
			ci, ok := i.(ssa.CallInstruction)
			if !ok || calleeName(ci) != "(*sync.Once).Do" {
				return
			}
			for _, a := range ci.Common().Args {
				if fn, ok := a.(*ssa.Function); ok {
					out[fn] = true
				}
				if mc, ok := a.(*ssa.MakeClosure); ok {
					if fn, ok := mc.Fn.(*ssa.Function); ok {
						out[fn] = true
					}
				}
			}
		})
	}
	return out
}

func dependsOnArgs(t *Term) (yes, opaque bool) {
	t.walk(func(x *Term) {
		switch x.Op {
		case "param":
			yes = true
		case "phi", "freevar", "unknown", "closure", "any", "anyof":
			opaque = true
		}
	})
	return
}

func stateRules(c *Ctx) {
	if c.W == nil || len(c.W.SSA) == 0 {
		return
	}
	c.Decided = append(c.Decided, "STATE (shared by every property, over all functions reachable from the anchors): no argument-dependent store into package-level memory outside init / sync.Once / a lock; every value remembered in a package-level map or sync.Map is computed only from argument paths its key covers, and is not file content; no slice of a sync.Pool object is returned while the object is put back; no variable read by a started goroutine's function literal is assigned again by the starter without synchronisation, none is assigned by several such goroutines without a lock; no argument text is used as a fmt format string")
	c.Undec = append(c.Undec, "data races through memory that is not a package-level variable, a captured local or a pooled object; what a lock actually covers")
	fam := stateFamily(c)
	if len(fam) == 0 {
		c.undecided("STATE", "family examined", token.NoPos, "no function of the property's anchors was found: nothing examined")
		return
	}
	once := onceBodies(c.W)
	// reachable only through a Once body: serialised as well
	underOnce := map[*ssa.Function]bool{}
	for f := range once {
		for g := range reachable(f) {
			underOnce[g] = true
		}
	}
	nWrites, nMemo, nPool, nGo := 0, 0, 0, 0
	for _, g := range fam {
		g := g
		tb := newDeepTB(g)
		short1 := strings.TrimPrefix(fname(g), "poly/")
		// ---- scratch
		type wr struct {
			at   ssa.Instruction
			glob *ssa.Global
			val  []ssa.Value
		}
		var writes []wr
		eachInstr(g, func(i ssa.Instruction) {
			switch x := i.(type) {
			case *ssa.Store:
				if gl := globalRoot(x.Addr); gl != nil {
					vals := []ssa.Value{x.Val}
					if ia, ok := x.Addr.(*ssa.IndexAddr); ok {
						vals = append(vals, ia.Index)
					}
					writes = append(writes, wr{x, gl, vals})
				}
			case *ssa.MapUpdate:
				if gl := globalRoot(x.Map); gl != nil {
					writes = append(writes, wr{x, gl, []ssa.Value{x.Key, x.Value}})
				}
			case ssa.CallInstruction:
				// feeding a package-level accumulator (a hasher, a buffer, a builder): Write*/Reset on an
				// object that lives in a package-level variable
				cc := x.Common()
				var recv ssa.Value
				name := ""
				if cc.IsInvoke() {
					recv, name = cc.Value, cc.Method.Name()
				} else if cc.Signature().Recv() != nil && len(cc.Args) > 0 {
					recv = cc.Args[0]
					if f := cc.StaticCallee(); f != nil {
						name = f.Name()
					}
				}
				if recv == nil || !(strings.HasPrefix(name, "Write") || name == "Reset" || name == "Truncate" || name == "ReadFrom") {
					return
				}
				if gl := globalRoot(recv); gl != nil {
					vals := append([]ssa.Value{}, cc.Args...)
					if !cc.IsInvoke() {
						vals = vals[1:]
					}
					if len(vals) == 0 {
						return // a bare Reset says nothing about whose data goes in
					}
					writes = append(writes, wr{x, gl, vals})
				}
			}
		})
		perGlobal := map[*ssa.Global]bool{}
		for _, w := range writes {
			nWrites++
			if perGlobal[w.glob] {
				continue
			}
			key := "scratch:" + short1 + "->" + w.glob.Name()
			guard := guardedBy(g)
			if guard == "" && (once[g] || underOnce[g]) {
				guard = "sync.Once"
			}
			if guard == "sync.Once" {
				// initialised once – from what? data of the call that happened to come first is wrong for every later call
				fromArgs := false
				for _, v := range w.val {
					tb.T(v).walk(func(x *Term) {
						if x.Op == "param" {
							fromArgs = true
						}
						if x.Op == "freevar" && capturesParam(g, x) {
							fromArgs = true
						}
					})
				}
				if fromArgs {
					perGlobal[w.glob] = true
					c.bad("STATE", key, w.at.Pos(), fmt.Sprintf("%s fills package-level %s once (sync.Once) with data computed from the arguments of whichever call comes first: every later call, with other arguments, works on the first call's data", short1, w.glob.Name()))
					continue
				}
			}
			if guard != "" {
				perGlobal[w.glob] = true
				c.undecided("STATE", key, w.at.Pos(), fmt.Sprintf("%s writes package-level %s under %s; what the lock covers is not followed", short1, w.glob.Name(), guard))
				continue
			}
			dep, opq := false, false
			for _, v := range w.val {
				d, o := dependsOnArgs(tb.T(v))
				dep, opq = dep || d, opq || o
			}
			if !dep {
				// a later write to the same variable may still be argument-dependent
				more := false
				for _, w2 := range writes {
					if w2.glob == w.glob && w2.at != w.at {
						for _, v := range w2.val {
							if d, _ := dependsOnArgs(tb.T(v)); d {
								more = true
							}
						}
					}
				}
				if more {
					continue
				}
			}
			perGlobal[w.glob] = true
			if dep {
				c.bad("STATE", key, w.at.Pos(), fmt.Sprintf("%s stores data computed from its arguments into package-level %s with no lock: calls that overlap (two goroutines) share that memory and each works on what the other wrote, so the result is no longer a function of the call's own arguments", short1, w.glob.Name()))
			} else if opq {
				c.undecided("STATE", key, w.at.Pos(), fmt.Sprintf("%s writes package-level %s at run time; whether the data depends on the arguments is not visible", short1, w.glob.Name()))
			} else if flagAt := flagRaisedBefore(g, w.at, w.glob); flagAt != nil {
				c.bad("STATE", key, w.at.Pos(), fmt.Sprintf("%s fills package-level %s on first use, and the flag that says \"already built\" is raised (at %s) BEFORE the filling is done, with no lock or sync.Once: a second caller that arrives in between sees the flag, skips the building and reads a table that is still partly empty", short1, w.glob.Name(), c.W.pos(flagAt.Pos())))
			} else {
				c.undecided("STATE", key, w.at.Pos(), fmt.Sprintf("%s writes package-level %s at run time with data that does not depend on its arguments (lazy initialisation); not synchronised", short1, w.glob.Name()))
			}
		}
		// ---- looked up under one key, stored under another
		{
			type kv struct {
				at  ssa.Instruction
				key string
			}
			loads, stores := map[string][]kv{}, map[string][]kv{}
			eachInstr(g, func(i ssa.Instruction) {
				switch x := i.(type) {
				case *ssa.Call:
					n := calleeName(x)
					if (n == "(*sync.Map).Load" || n == "(*sync.Map).Store") && len(x.Call.Args) >= 2 {
						if gl := globalRoot(x.Call.Args[0]); gl != nil {
							kl, opq := argLeaves(tb.T(unwrapIface(x.Call.Args[1])))
							if opq || len(kl) == 0 {
								return
							}
							e := kv{x, strings.Join(kl, ",")}
							if n == "(*sync.Map).Load" {
								loads[gl.Name()] = append(loads[gl.Name()], e)
							} else {
								stores[gl.Name()] = append(stores[gl.Name()], e)
							}
						}
					}
				case *ssa.Lookup:
					if gl := globalRoot(x.X); gl != nil {
						if _, isMap := x.X.Type().Underlying().(*types.Map); isMap {
							if kl, opq := argLeaves(tb.T(x.Index)); !opq && len(kl) > 0 {
								loads[gl.Name()] = append(loads[gl.Name()], kv{x, strings.Join(kl, ",")})
							}
						}
					}
				case *ssa.MapUpdate:
					if gl := globalRoot(x.Map); gl != nil {
						if kl, opq := argLeaves(tb.T(x.Key)); !opq && len(kl) > 0 {
							stores[gl.Name()] = append(stores[gl.Name()], kv{x, strings.Join(kl, ",")})
						}
					}
				}
			})
			for name, ls := range loads {
				for _, st := range stores[name] {
					for _, ld := range ls {
						if ld.key != st.key {
							c.bad("STATE", "memo-key:"+short1+"->"+name+":lookup", ld.at.Pos(), fmt.Sprintf("%s looks package-level %s up under a key computed from %s but stores under a key computed from %s: a value remembered for one argument is handed out for another", short1, name, strings.Join(pretty(g, strings.Split(ld.key, ",")), ", "), strings.Join(pretty(g, strings.Split(st.key, ",")), ", ")))
						}
					}
				}
			}
		}
		// ---- memo keys
		nMemo += memoKeys(c, g, tb, short1, false)
		// ---- data used as a format string
		eachInstr(g, func(i ssa.Instruction) {
			ci, ok := i.(ssa.CallInstruction)
			if !ok {
				return
			}
			pos := -1
			switch calleeName(ci) {
			case "fmt.Sprintf", "fmt.Printf", "fmt.Errorf":
				pos = 0
			case "fmt.Fprintf", "fmt.Sscanf", "fmt.Fscanf":
				pos = 1
			}
			as := ci.Common().Args
			if pos < 0 || pos >= len(as) {
				return
			}
			if k, isConst := as[pos].(*ssa.Const); isConst {
				// a constant layout that cuts a text operand to a fixed number of characters
				if n := calleeName(ci); (n == "fmt.Sprintf" || n == "fmt.Fprintf") && k.Value != nil && k.Value.Kind() == constant.String && pos+1 < len(as) {
					ops := variadicOperands(as[pos+1])
					for _, vb := range precisionVerbs(constant.StringVal(k.Value)) {
						x, have := ops[vb.operand]
						if !have || !isTextType(x.Type()) {
							continue
						}
						if d, _ := dependsOnArgs(tb.T(x)); d {
							c.bad("STATE", "truncating-format:"+short1, i.Pos(), fmt.Sprintf("%s lays a text out with the verb %q: the precision cuts the text to %d characters, so a longer value is written shortened and cannot be read back", short1, vb.verb, vb.prec))
						}
					}
				}
				return
			}
			ft := tb.T(as[pos])
			if leaves, _ := argLeaves(ft); len(leaves) > 0 {
				c.bad("STATE", "format:"+short1, i.Pos(), fmt.Sprintf("%s builds the format string of %s from %s: a '%%' in that text is read as a formatting verb, so the text comes out garbled and the operands shift", short1, calleeName(ci), strings.Join(pretty(g, leaves), ", ")))
			}
		})
		// ---- an argument list filtered in place: append(list[:0], kept...) rewrites the caller's list
		if g.Parent() == nil && token.IsExported(g.Name()) {
			eachInstr(g, func(i ssa.Instruction) {
				cl, ok := i.(*ssa.Call)
				if !ok || len(cl.Call.Args) != 2 {
					return
				}
				if b, isB := cl.Call.Value.(*ssa.Builtin); !isB || b.Name() != "append" {
					return
				}
				var par *ssa.Parameter
				seen := map[ssa.Value]bool{}
				var root func(v ssa.Value, d int)
				root = func(v ssa.Value, d int) {
					if d > 6 || seen[v] || par != nil {
						return
					}
					seen[v] = true
					switch x := v.(type) {
					case *ssa.Phi:
						for _, e := range x.Edges {
							root(e, d+1)
						}
					case *ssa.Call:
						if b, isB := x.Call.Value.(*ssa.Builtin); isB && b.Name() == "append" && len(x.Call.Args) > 0 {
							root(x.Call.Args[0], d+1)
						}
					case *ssa.Slice:
						k, isK := x.High.(*ssa.Const)
						p, isP := x.X.(*ssa.Parameter)
						if isK && isP && k.Value != nil && k.Int64() == 0 {
							par = p
						}
					}
				}
				root(cl.Call.Args[0], 0)
				if par == nil {
					return
				}
				c.bad("STATE", "filter-in-place:"+short1+":"+par.Name(), cl.Pos(), fmt.Sprintf("%s appends the elements it keeps to %s[:0], a cut of length 0 of the list its caller handed in: the appends land in the caller's own array, so after the call the caller's list is rewritten (kept elements shifted over dropped ones) and the next call with that list works on different data", short1, par.Name()))
			})
		}
		// ---- a text copied into a local array of fixed size with no test of its length
		eachInstr(g, func(i ssa.Instruction) {
			cl, ok := i.(*ssa.Call)
			if !ok || len(cl.Call.Args) != 2 {
				return
			}
			if b, isB := cl.Call.Value.(*ssa.Builtin); !isB || b.Name() != "copy" {
				return
			}
			sl, ok := cl.Call.Args[0].(*ssa.Slice)
			if !ok || sl.High != nil {
				return
			}
			al, ok := sl.X.(*ssa.Alloc)
			if !ok {
				return
			}
			arr, ok := al.Type().Underlying().(*types.Pointer).Elem().Underlying().(*types.Array)
			if !ok || inLoop(cl.Block()) {
				return
			}
			src := cl.Call.Args[1]
			if _, isArr := src.(*ssa.Slice); isArr {
				return // a cut of something: its bounds may be the test
			}
			st := tb.T(src)
			if st.Op != "param" || !isTextType(src.Type()) {
				return
			}
			if pc := pathCond(tb, g.Blocks[0], cl.Block()); strings.Contains(pc.String(), "builtin:len") {
				return
			}
			// the length is tested nowhere in the function: longer texts lose their tail
			tested := false
			if src.Referrers() != nil {
				for _, r := range *src.Referrers() {
					if lc, isCall := r.(*ssa.Call); isCall {
						if b, isB := lc.Call.Value.(*ssa.Builtin); isB && b.Name() == "len" && lc.Referrers() != nil {
							for _, rr := range *lc.Referrers() {
								if _, isCmp := rr.(*ssa.BinOp); isCmp {
									tested = true
								}
							}
						}
					}
				}
			}
			if tested {
				return
			}
			c.bad("STATE", "truncating-copy:"+short1, cl.Pos(), fmt.Sprintf("%s copies its text argument into a local array of %d elements and never compares the text's length with anything: copy stops silently when the array is full, so a longer text loses its tail and the result is computed from the first %d letters only", short1, arr.Len(), arr.Len()))
		})
		// ---- a reader that silently stops after a fixed number of bytes
		eachInstr(g, func(i ssa.Instruction) {
			ci, ok := i.(ssa.CallInstruction)
			if !ok {
				return
			}
			switch n := calleeName(ci); n {
			case "io.LimitReader", "io.CopyN", "net/http.MaxBytesReader":
				as := ci.Common().Args
				if k, isC := as[len(as)-1].(*ssa.Const); isC && k.Value != nil {
					c.bad("STATE", "truncating-read:"+short1, i.Pos(), fmt.Sprintf("%s reads its input through %s with the constant limit %s: a longer input is cut off there without an error, so what is parsed is a prefix of what was written", short1, n, k.Value.String()))
					return
				}
				// a limit worked out from the size of the compressed file, put on the inflated stream: the two
				// lengths are unrelated (text of one repeated letter compresses a thousandfold)
				lim := tb.T(as[len(as)-1])
				src := tb.T(as[len(as)-2])
				if n == "io.CopyN" {
					src = tb.T(as[1])
				}
				inflates := src.contains(func(x *Term) bool {
					return x.Op == "call" && (strings.HasPrefix(x.Name, "compress/") || strings.Contains(x.Name, "gzip.") || strings.Contains(x.Name, "zlib.") || strings.Contains(x.Name, "flate.")) && strings.Contains(x.Name, "NewReader")
				})
				bySize := lim.contains(func(x *Term) bool {
					return x.Op == "call" && (strings.HasSuffix(x.Name, ".Size") || strings.HasSuffix(x.Name, "FileInfo).Size") || strings.HasSuffix(x.Name, "Size]"))
				}) || strings.Contains(lim.String(), ".Size")
				// ... or from the length of the compressed bytes the inflater reads
				src.walk(func(x *Term) {
					if x.Op == "call" && strings.Contains(x.Name, "NewReader") && (strings.HasPrefix(x.Name, "compress/") || strings.Contains(x.Name, "gzip.") || strings.Contains(x.Name, "zlib.") || strings.Contains(x.Name, "flate.")) {
						for _, a := range x.Args {
							a.walk(func(y *Term) {
								if (y.Op == "call" || y.Op == "extract") && len(y.String()) > 12 && strings.Contains(lim.String(), "call[builtin:len]("+y.String()+")") {
									bySize = true
								}
							})
						}
					}
				})
				if inflates && bySize {
					c.bad("STATE", "truncating-read:"+short1, i.Pos(), fmt.Sprintf("%s reads the inflated stream through %s with a limit worked out from the size of the compressed file (%s): how far a text inflates is not bounded by a ratio, so a well-formed file that compresses better than that is cut off without an error", short1, n, short(lim.String())))
				} else {
					c.undecided("STATE", "truncating-read:"+short1, i.Pos(), fmt.Sprintf("%s reads its input through %s with the limit %s; whether a well-formed input can be longer is not decided", short1, n, short(lim.String())))
				}
			}
		})
		// ---- binary search in a list that is kept in arrival order
		eachInstr(g, func(i ssa.Instruction) {
			cl, ok := i.(*ssa.Call)
			if !ok {
				return
			}
			n := calleeName(cl)
			if n != "sort.SearchStrings" && n != "sort.SearchInts" && n != "sort.SearchFloat64s" {
				return
			}
			if why := keptUnsorted(g, cl.Call.Args[0]); why != "" {
				c.bad("STATE", "search-unsorted:"+short1, cl.Pos(), fmt.Sprintf("%s looks a value up with %s in a list that %s: binary search needs ascending order, so a value that is present can be reported absent (duplicates are kept, members are missed)", short1, n, why))
			}
		})
		// ---- a send that gives up when the receiver is not ready
		eachInstr(g, func(i ssa.Instruction) {
			sel, ok := i.(*ssa.Select)
			if !ok || sel.Blocking {
				return
			}
			for _, stt := range sel.States {
				if stt.Dir == types.SendOnly {
					c.bad("STATE", "non-blocking-send:"+short1, sel.Pos(), fmt.Sprintf("%s sends on a channel inside a select with a default branch: when the receiver is not ready at that instant (a full buffer, a consumer busy with the other channel) the value is dropped without a trace, so what is delivered depends on timing", short1))
					return
				}
			}
		})
		// ---- pool
		nPool += poolAlias(c, g, short1)
		// ---- variables shared with a started goroutine
		nGo += goCapture(c, g, short1)
		// ---- function literals that keep a loop variable declared once for the whole loop
		loopVarCapture(c, g, short1)
		loopVarAddress(c, g, short1)
		// ---- a pooled object handed to a goroutine and put back by the starter
		poolToGoroutine(c, g, short1)
		// ---- a pooled list used with whatever an earlier call left in it
		poolSliceHygiene(c, g, short1)
		// ---- the last, unterminated line of an input dropped together with the end-of-input error
		lastLineDropped(c, g, short1)
		// ---- bytes of an argument re-labelled as a string without a copy
		unsafeAlias(c, g, short1)
		// ---- a buffered writer whose buffer is never written out
		unflushedWriter(c, g, short1)
		// ---- pooled memory used after it was put back; a pooled buffer that keeps an earlier call's content
		poolUseAfterPut(c, g, short1)
		poolBufferHygiene(c, g, short1)
		// ---- an element removed from the list that is being ranged over
		rangeDelete(c, g, short1)
		// ---- an in-place reversal whose bound is right for some lengths only
		swapReversal(c, g, short1)
		// ---- a goroutine that counts itself in; same-named parameters handed over crosswise; package-level
		// backing arrays behind results; one scratch buffer for every worker
		addInsideGoroutine(c, g, short1)
		swappedArguments(c, g, short1)
		globalBacking(c, g, short1)
		goSharedScratch(c, g, short1)
		// ---- marks left in a pooled table; a memo split over two atomics; a predicate that edits its subject
		poolArrayMarks(c, g, short1)
		atomicPair(c, g, short1)
		predicateWritesArgument(c, g, short1)
		// ---- two appends onto one cut of a longer list
		appendFork(c, g, short1)
		// ---- ReadLine pieces taken for lines; a buffer flushed again and again; one map for all workers
		readLinePrefixIgnored(c, g, short1)
		flushWithoutReset(c, g, short1)
		goSharedMap(c, g, short1)
		// ---- a decoder pointed at memory shared with package state
		decodeIntoShared(c, g, short1)
		// ---- a line scanner with the default token limit
		scannerLimit(c, g, short1)
		// ---- an output file opened for overwriting without being truncated
		openWithoutTruncate(c, g, short1)
		// ---- a memo that hands out its own lists
		memoAlias(c, g, short1)
		// ---- an error variable shadowed by an inner declaration and returned as nil
		shadowedError(c, g, short1)
		// ---- letters cut to one byte while a text is copied
		runeNarrowed(c, g, short1)
		byteWidened(c, g, short1)
		strictLetterRange(c, g, short1)
		cutsetAsPrefix(c, g, short1)
		smallTableByByte(c, g, short1)
		uncheckedErrorAssert(c, g, short1)
		scratchReturned(c, g, short1)
		doubleCheckedLocking(c, g, short1)
		firstMemberMissed(c, g, short1)
		memoByAddress(c, g, short1)
		narrowCounter(c, g, short1)
		gluedMemoKey(c, g, short1)
		writeUnderReadLock(c, g, short1)
		indexSummed(c, g, short1)
	}
	// parsers that link features to a local Sequence (shared by C01, C14, C15)
	switch c.Prop {
	case "C01":
		parentFilled(c, "STATE", c.W.fn("io/genbank", "Parse"))
	case "C14":
		parentFilled(c, "STATE", c.W.fn("io/gff", "Parse"))
	case "C15":
		parentFilled(c, "STATE", c.W.fn("io/polyjson", "Parse"))
	}
	// functions that only initialisers call: a memo inside them (looked up and stored) still needs a complete key
	for _, g := range initOnlyFns[c] {
		nMemo += memoKeys(c, g, newDeepTB(g), strings.TrimPrefix(fname(g), "poly/"), true)
	}
	delete(initOnlyFns, c)
	c.ok("STATE", "family examined", fam[0].Pos(), fmt.Sprintf("%d functions reachable from the anchors examined: %d writes to package-level memory, %d remembered values, %d pooled objects, %d goroutines started on function literals", len(fam), nWrites, nMemo, nPool, nGo))
}

func unwrapIface(v ssa.Value) ssa.Value {
	for {
		switch x := v.(type) {
		case *ssa.MakeInterface:
			v = x.X
		case *ssa.ChangeType:
			v = x.X
		default:
			return v
		}
	}
}

// pretty renders leaf paths with the parameter's source name.
func pretty(g *ssa.Function, ls []string) []string {
	var out []string
	seen := map[string]bool{}
	for _, l := range ls {
		s := l
		for i, p := range g.Params {
			pre := fmt.Sprintf("p%d", i)
			if s == pre || strings.HasPrefix(s, pre+".") || strings.HasPrefix(s, pre+"[") {
				s = p.Name() + s[len(pre):]
				break
			}
		}
		if !seen[s] {
			seen[s] = true
			out = append(out, s)
		}
	}
	if len(out) == 0 {
		return []string{"nothing"}
	}
	return out
}

// argLeaves: the argument-rooted access paths a term reads ("p0", "p0.Name", "p1.AminoAcids[]").
func argLeaves(t *Term) (leaves []string, opaque bool) {
	var path func(x *Term) (string, bool)
	path = func(x *Term) (string, bool) {
		if x == nil {
			return "", false
		}
		switch x.Op {
		case "param":
			return "p" + x.Name, true
		case "field":
			if len(x.Args) == 1 {
				if p, ok := path(x.Args[0]); ok {
					return p + "." + x.Name, true
				}
			}
		case "deref":
			if len(x.Args) == 1 {
				return path(x.Args[0])
			}
		case "each":
			if len(x.Args) >= 1 {
				if p, ok := path(x.Args[0]); ok {
					return p + "[]", true
				}
			}
		case "index", "lookup":
			if len(x.Args) >= 1 {
				if p, ok := path(x.Args[0]); ok {
					return p + "[]", true
				}
			}
		}
		return "", false
	}
	seen := map[string]bool{}
	var walk func(x *Term)
	walk = func(x *Term) {
		if x == nil {
			return
		}
		if p, ok := path(x); ok {
			if !seen[p] {
				seen[p] = true
				leaves = append(leaves, p)
			}
			// an index expression also reads its index
			if (x.Op == "index" || x.Op == "lookup") && len(x.Args) > 1 {
				for _, a := range x.Args[1:] {
					walk(a)
				}
			}
			return
		}
		switch x.Op {
		case "phi", "freevar", "unknown", "closure", "any", "anyof", "alloc", "makemap", "makeslice":
			opaque = true
		}
		for _, a := range x.Args {
			walk(a)
		}
	}
	walk(t)
	sort.Strings(leaves)
	return
}

// containerContent: if v is a map or slice made in g, every value stored into it in g.
func containerContent(g *ssa.Function, v ssa.Value) []ssa.Value {
	var out []ssa.Value
	switch v.(type) {
	case *ssa.MakeMap, *ssa.MakeSlice, *ssa.Alloc:
	default:
		return nil
	}
	eachInstr(g, func(i ssa.Instruction) {
		switch x := i.(type) {
		case *ssa.MapUpdate:
			if x.Map == v {
				out = append(out, x.Key, x.Value)
			}
		case *ssa.Store:
			base := x.Addr
			for {
				switch y := base.(type) {
				case *ssa.IndexAddr:
					base = y.X
					continue
				case *ssa.FieldAddr:
					base = y.X
					continue
				}
				break
			}
			if base == v {
				out = append(out, x.Val)
			}
		}
	})
	return out
}

// poolAlias: memory of a pooled object referenced by a result although the object is put back.
func poolAlias(c *Ctx, g *ssa.Function, short1 string) int {
	n := 0
	eachInstr(g, func(i ssa.Instruction) {
		get, ok := i.(*ssa.Call)
		if !ok || calleeName(get) != "(*sync.Pool).Get" {
			return
		}
		n++
		obj := map[ssa.Value]bool{get: true}
		for changed := true; changed; {
			changed = false
			for v := range obj {
				if v.Referrers() == nil {
					continue
				}
				for _, r := range *v.Referrers() {
					switch x := r.(type) {
					case *ssa.TypeAssert:
						if !obj[x] {
							obj[x], changed = true, true
						}
					case *ssa.Extract:
						if !obj[x] && x.Index == 0 {
							obj[x], changed = true, true
						}
					case *ssa.ChangeType:
						if !obj[x] {
							obj[x], changed = true, true
						}
					case *ssa.MakeInterface:
						if !obj[x] {
							obj[x], changed = true, true
						}
					}
				}
			}
		}
		putBack := false
		eachInstr(g, func(j ssa.Instruction) {
			if ci, ok := j.(ssa.CallInstruction); ok && calleeName(ci) == "(*sync.Pool).Put" {
				for _, a := range ci.Common().Args {
					if obj[a] {
						putBack = true
					}
				}
			}
		})
		if !putBack {
			return
		}
		// reference-typed values derived from the object's memory: method results with references
		// (Bytes, Next, ...), then slices of them and std calls over them
		derived := map[ssa.Value]bool{}
		for changed := true; changed; {
			changed = false
			eachInstr(g, func(j ssa.Instruction) {
				v, ok := j.(ssa.Value)
				if !ok || derived[v] || obj[v] {
					return
				}
				switch x := j.(type) {
				case *ssa.Call:
					if _, isSlice := x.Type().Underlying().(*types.Slice); !isSlice {
						return
					}
					if inModule(x.Call.StaticCallee()) {
						return
					}
					if n := calleeName(x); n == "builtin:append" {
						// append(dst, src...) copies src: only dst's memory can be the result's
						if derived[x.Call.Args[0]] {
							derived[v], changed = true, true
						}
						return
					} else if strings.HasSuffix(n, ".Clone") || strings.HasSuffix(n, ".Repeat") || strings.HasSuffix(n, ".Join") || strings.HasPrefix(n, "bytes.To") || strings.HasSuffix(n, ".ReplaceAll") || strings.HasSuffix(n, ".Replace") || strings.HasSuffix(n, ".Map") {
						return // these return fresh memory
					}
					for k, a := range x.Call.Args {
						if (obj[a] && k == 0 && x.Call.Signature().Recv() != nil) || derived[a] {
							derived[v], changed = true, true
						}
					}
				case *ssa.Slice:
					if derived[x.X] {
						derived[v], changed = true, true
					}
				case *ssa.UnOp:
					// a result spilled into a local because of a defer: the load sees what was stored
					if a, ok := x.X.(*ssa.Alloc); ok && x.Op.String() == "*" && a.Referrers() != nil {
						for _, r := range *a.Referrers() {
							if st, ok := r.(*ssa.Store); ok && st.Addr == ssa.Value(a) && derived[st.Val] {
								derived[v], changed = true, true
							}
						}
					}
				case *ssa.Phi:
					for _, e := range x.Edges {
						if derived[e] {
							derived[v], changed = true, true
						}
					}
				}
			})
		}
		// the content of a pooled *[]T is the pooled memory too
		for changed := true; changed; {
			changed = false
			eachInstr(g, func(j ssa.Instruction) {
				if ld, ok := j.(*ssa.UnOp); ok && ld.Op.String() == "*" && obj[ld.X] && !derived[ld] {
					if _, isSlice := ld.Type().Underlying().(*types.Slice); isSlice {
						derived[ld], changed = true, true
					}
				}
				switch x := j.(type) {
				case *ssa.Slice:
					if derived[x.X] && !derived[x] {
						derived[x], changed = true, true
					}
				case *ssa.Phi:
					if !derived[x] {
						for _, e := range x.Edges {
							if derived[e] {
								derived[x], changed = true, true
							}
						}
					}
				case *ssa.Call:
					if calleeName(x) == "builtin:append" && len(x.Call.Args) > 0 && derived[x.Call.Args[0]] && !derived[x] {
						derived[x], changed = true, true
					}
				}
			})
		}
		// ... and a record or list that holds such a slice carries it: local records it is stored into, lists
		// those records are appended to
		carries := map[ssa.Value]bool{}
		for v := range derived {
			carries[v] = true
		}
		for changed := true; changed; {
			changed = false
			eachInstr(g, func(j ssa.Instruction) {
				switch x := j.(type) {
				case *ssa.Store:
					if !carries[x.Val] {
						return
					}
					if a, _, isLocal := rootAlloc(x.Addr); isLocal && !obj[x.Addr] && !carries[a] {
						carries[a], changed = true, true
					}
				case *ssa.UnOp:
					if x.Op.String() == "*" && carries[x.X] && !carries[x] {
						carries[x], changed = true, true
					}
				case *ssa.Call:
					if calleeName(x) == "builtin:append" && !carries[x] {
						for _, a := range x.Call.Args {
							if carries[a] {
								carries[x], changed = true, true
							}
						}
					}
				case *ssa.Slice:
					if carries[x.X] && !carries[x] {
						carries[x], changed = true, true
					}
				case *ssa.Phi:
					if !carries[x] {
						for _, e := range x.Edges {
							if carries[e] {
								carries[x], changed = true, true
							}
						}
					}
				}
			})
		}
		for _, r := range returnsOf(g) {
			for _, res := range r.Results {
				if carries[res] && !derived[res] {
					c.bad("STATE", "pool:"+short1, get.Pos(), fmt.Sprintf("%s returns a value that holds a slice of an object it hands back to a sync.Pool: the next call that takes the object from the pool overwrites those elements while the caller still uses them", short1))
					return
				}
			}
		}
		for _, r := range returnsOf(g) {
			for _, res := range r.Results {
				if derived[res] {
					c.bad("STATE", "pool:"+short1, get.Pos(), fmt.Sprintf("%s returns a slice that still points into an object it hands back to a sync.Pool: the next call that takes the object from the pool overwrites the bytes while the caller is still reading them", short1))
					return
				}
			}
		}
	})
	return n
}

// goCapture: `go func() { ... x ... }()` where x is a variable of g that g stores to again on a path
// from the go statement that neither re-declares x nor passes a synchronisation point.
func goCapture(c *Ctx, g *ssa.Function, short1 string) int {
	n := 0
	eachInstr(g, func(i ssa.Instruction) {
		gi, ok := i.(*ssa.Go)
		if !ok {
			return
		}
		mc, ok := gi.Call.Value.(*ssa.MakeClosure)
		if !ok {
			return
		}
		n++
		fn, _ := mc.Fn.(*ssa.Function)
		if fn == nil {
			return
		}
		// several goroutines updating one map: the literal (or a module function it hands the map to)
		// updates a map it captured, the go statement sits in a loop, and nobody takes a lock
		// started more than once: the go statement sits in a loop, or the same literal is started by several go statements
		manyStarts := inLoop(gi.Block())
		if !manyStarts && mc.Referrers() != nil {
			nGo := 0
			for _, r := range *mc.Referrers() {
				if _, isGo := r.(*ssa.Go); isGo {
					nGo++
				}
			}
			manyStarts = nGo >= 2
		}
		for bi := range mc.Bindings {
			if bi >= len(fn.FreeVars) || !manyStarts || guardedBy(fn) != "" {
				continue
			}
			fv := fn.FreeVars[bi]
			isMap := func(t types.Type) bool { _, ok := t.Underlying().(*types.Map); return ok }
			mapVals := map[ssa.Value]bool{}
			if isMap(fv.Type()) {
				mapVals[fv] = true
			} else if p, isPtr := fv.Type().Underlying().(*types.Pointer); isPtr && isMap(p.Elem()) && fv.Referrers() != nil {
				for _, r := range *fv.Referrers() {
					if ld, isLd := r.(*ssa.UnOp); isLd && ld.Op.String() == "*" {
						mapVals[ld] = true
					}
				}
			}
			if len(mapVals) == 0 {
				continue
			}
			written := ""
			eachInstr(fn, func(j ssa.Instruction) {
				switch x := j.(type) {
				case *ssa.MapUpdate:
					if mapVals[x.Map] {
						written = "updates it"
					}
				case ssa.CallInstruction:
					callee := x.Common().StaticCallee()
					if callee == nil || !inModule(callee) || callee.Blocks == nil || guardedBy(callee) != "" {
						return
					}
					for k, a := range x.Common().Args {
						if mapVals[a] && k < len(callee.Params) {
							par := callee.Params[k]
							eachInstr(callee, func(j2 ssa.Instruction) {
								if mu, ok := j2.(*ssa.MapUpdate); ok && mu.Map == ssa.Value(par) {
									written = "hands it to " + strings.TrimPrefix(fname(callee), "poly/") + ", which updates it"
								}
							})
						}
					}
				}
			})
			if written != "" {
				name := fv.Name()
				c.bad("STATE", "go-shared-write:"+short1+"."+name, gi.Pos(), fmt.Sprintf("%s starts, in a loop, goroutines on a function literal that captures the map %s and %s with no lock: concurrent map writes lose updates or abort the program", short1, name, written))
			}
		}
		for bi, b := range mc.Bindings {
			al, ok := b.(*ssa.Alloc)
			if !ok || bi >= len(fn.FreeVars) {
				continue
			}
			// the literal reads the variable
			reads := false
			fv := fn.FreeVars[bi]
			if fv.Referrers() != nil {
				for _, r := range *fv.Referrers() {
					switch x := r.(type) {
					case *ssa.UnOp:
						reads = true
					case *ssa.FieldAddr, *ssa.IndexAddr:
						reads = true
					case *ssa.Store:
						if x.Addr != ssa.Value(fv) {
							reads = true
						}
					}
				}
			}
			// several goroutines assigning one variable: the literal stores into the captured variable itself
			// (x = append(x, ...), n += ...), the go statement sits in a loop, and the literal takes no lock
			if fv.Referrers() != nil && manyStarts && guardedBy(fn) == "" {
				for _, r := range *fv.Referrers() {
					if st, isSt := r.(*ssa.Store); isSt && st.Addr == ssa.Value(fv) {
						c.bad("STATE", "go-shared-write:"+short1+"."+al.Comment, st.Pos(), fmt.Sprintf("%s starts several goroutines (a loop, or several go statements) on a function literal that assigns the variable %s of the starting function with no lock: two of them can read the same old value and one assignment is lost (an element appended by one goroutine disappears)", short1, al.Comment))
						break
					}
				}
			}
			if !reads {
				continue
			}
			if st := storeAfter(gi, al); st != nil {
				c.bad("STATE", "go-capture:"+short1+"."+al.Comment, gi.Pos(), fmt.Sprintf("%s starts a goroutine on a function literal that reads the local variable %s, and assigns %s again afterwards (%s) with nothing that orders the two: the goroutine works on whichever value it finds when it runs, so one value can be processed twice and another never", short1, al.Comment, al.Comment, c.W.pos(st.Pos())))
			}
		}
	})
	return n
}

// storeAfter: a store into variable al that control can reach from the go statement without passing
// the declaration of al again (a fresh variable per iteration) and without a synchronisation point.
func storeAfter(gi *ssa.Go, al *ssa.Alloc) *ssa.Store {
	isSync := func(i ssa.Instruction) bool {
		switch x := i.(type) {
		case ssa.CallInstruction:
			switch calleeName(x) {
			case "(*sync.WaitGroup).Wait", "(*sync.Mutex).Lock", "(*sync.RWMutex).Lock":
				return true
			}
		case *ssa.UnOp:
			return x.Op.String() == "<-"
		case *ssa.Select:
			return true
		}
		return false
	}
	rooted := func(addr ssa.Value) bool {
		for {
			switch y := addr.(type) {
			case *ssa.FieldAddr:
				addr = y.X
				continue
			case *ssa.IndexAddr:
				addr = y.X
				continue
			}
			return addr == ssa.Value(al)
		}
	}
	// scan a block from instruction index k; returns the store found, and whether the scan may go on
	scan := func(b *ssa.BasicBlock, k int) (*ssa.Store, bool) {
		for ; k < len(b.Instrs); k++ {
			in := b.Instrs[k]
			if in == ssa.Instruction(al) || isSync(in) {
				return nil, false
			}
			if st, ok := in.(*ssa.Store); ok && rooted(st.Addr) {
				// `return x, ...` with named results stores each result variable back into itself
				if ld, isLoad := st.Val.(*ssa.UnOp); isLoad && ld.Op.String() == "*" && ld.X == st.Addr {
					continue
				}
				return st, false
			}
		}
		return nil, true
	}
	blk := gi.Block()
	start := 0
	for k, in := range blk.Instrs {
		if in == ssa.Instruction(gi) {
			start = k + 1
		}
	}
	st, goOn := scan(blk, start)
	if st != nil || !goOn {
		return st
	}
	seen := map[*ssa.BasicBlock]bool{}
	work := append([]*ssa.BasicBlock{}, blk.Succs...)
	for len(work) > 0 {
		b := work[len(work)-1]
		work = work[:len(work)-1]
		if seen[b] {
			continue
		}
		seen[b] = true
		st, goOn := scan(b, 0)
		if st != nil {
			return st
		}
		if goOn {
			work = append(work, b.Succs...)
		}
	}
	return nil
}

// parentFilled (C01, C14, C15): a parser that links features to a local Sequence value through
// AddFeature(&local, ...) must also put the sequence text into that same value: GetSequence on a parsed
// feature reads feature.ParentSequence.Sequence. Evidence of the defect: the receiver is a local
// variable, nothing in the function stores its Sequence field (or the whole value), and its address
// goes nowhere else (so no helper can fill it). A helper that fills a by-value copy fills the copy.
func parentFilled(c *Ctx, rule string, f *ssa.Function) {
	if f == nil || f.Blocks == nil {
		return
	}
	short1 := strings.TrimPrefix(fname(f), "poly/")
	seen := map[*ssa.Alloc]bool{}
	eachInstr(f, func(i ssa.Instruction) {
		ci, ok := i.(ssa.CallInstruction)
		if !ok || calleeName(ci) != "(*poly.Sequence).AddFeature" || len(ci.Common().Args) == 0 {
			return
		}
		a, ok := unwrap(ci.Common().Args[0]).(*ssa.Alloc)
		if !ok || seen[a] || a.Referrers() == nil {
			return
		}
		seen[a] = true
		filled, escapes := false, false
		var visit func(v ssa.Value, depth int)
		visit = func(v ssa.Value, depth int) {
			if v.Referrers() == nil || depth > 3 {
				return
			}
			for _, r := range *v.Referrers() {
				switch x := r.(type) {
				case *ssa.Store:
					if x.Addr == v {
						if v == ssa.Value(a) || depth > 0 {
							filled = true // whole value, or the field reached below
						}
					} else if x.Val == v {
						escapes = true
					}
				case *ssa.FieldAddr:
					if storeFieldName(x) == "Sequence" && v == ssa.Value(a) {
						visit(x, depth+1)
					}
				case ssa.CallInstruction:
					if calleeName(x) == "(*poly.Sequence).AddFeature" && len(x.Common().Args) > 0 && x.Common().Args[0] == v {
						continue
					}
					escapes = true
				case *ssa.MakeInterface:
					// json.Unmarshal(data, &local) decodes every exported field, the sequence text included
					if x.Referrers() != nil {
						for _, rr := range *x.Referrers() {
							if cj, isCall := rr.(ssa.CallInstruction); isCall && (calleeName(cj) == "encoding/json.Unmarshal" || calleeName(cj) == "(*encoding/json.Decoder).Decode") {
								filled = true
							} else {
								escapes = true
							}
						}
					}
				case *ssa.MakeClosure, *ssa.Phi, *ssa.Return:
					escapes = true
				}
			}
		}
		visit(a, 0)
		key := "parent receives the sequence text:" + short1
		switch {
		case filled:
			c.ok(rule, key, ci.Pos(), "the Sequence value the features are linked to is the one the sequence text is stored into")
		case escapes:
			c.undecided(rule, key, ci.Pos(), "the address of the Sequence value the features are linked to is handed on; whether the sequence text reaches it is not followed")
		default:
			c.bad(rule, key, ci.Pos(), fmt.Sprintf("%s links features to its local %s through AddFeature, but nothing stores the sequence text into that value (a helper that works on a by-value copy fills the copy): GetSequence on a parsed feature reads an empty parent sequence", short1, a.Comment))
		}
	})
}

// keptUnsorted: the slice v is a local list that only ever grows by append(list, x) at its end and is
// never sorted or written by index in g. Returns a description, or "" when that is not established.
func keptUnsorted(g *ssa.Function, v ssa.Value) string {
	// the variable: a phi web / alloc whose values are append results
	group := map[ssa.Value]bool{}
	var appends []*ssa.Call
	okShape := true
	var walk func(x ssa.Value)
	walk = func(x ssa.Value) {
		if group[x] {
			return
		}
		group[x] = true
		switch y := x.(type) {
		case *ssa.Phi:
			for _, e := range y.Edges {
				walk(e)
			}
		case *ssa.Call:
			if calleeName(y) == "builtin:append" {
				appends = append(appends, y)
				walk(y.Call.Args[0])
			} else {
				okShape = false
			}
		case *ssa.Const:
			// nil start value
		case *ssa.MakeSlice:
		case *ssa.UnOp:
			// a variable kept in a cell (captured or address-taken): stores to the cell
			if a, isA := y.X.(*ssa.Alloc); isA && y.Op.String() == "*" && a.Referrers() != nil {
				for _, r := range *a.Referrers() {
					if st, isSt := r.(*ssa.Store); isSt && st.Addr == ssa.Value(a) {
						walk(st.Val)
					}
				}
			} else {
				okShape = false
			}
		default:
			okShape = false
		}
	}
	walk(v)
	if !okShape || len(appends) == 0 {
		return ""
	}
	// no sort, no insertion: nothing else in g may take a member of the group except len/range/index reads and the search itself
	sorted := false
	eachInstr(g, func(i ssa.Instruction) {
		switch x := i.(type) {
		case ssa.CallInstruction:
			n := calleeName(x)
			for _, a := range x.Common().Args {
				if group[a] || group[unwrap(a)] {
					if strings.HasPrefix(n, "sort.") && !strings.HasPrefix(n, "sort.Search") || strings.HasPrefix(n, "slices.Sort") || n == "builtin:copy" {
						sorted = true
					}
				}
			}
		case *ssa.IndexAddr:
			if group[x.X] && x.Referrers() != nil {
				for _, r := range *x.Referrers() {
					if st, isSt := r.(*ssa.Store); isSt && st.Addr == ssa.Value(x) {
						sorted = true // written by index: may be an insertion in place
					}
				}
			}
		case *ssa.Slice:
			if group[x.X] && x.Referrers() != nil {
				for _, r := range *x.Referrers() {
					if cc, isCall := r.(ssa.CallInstruction); isCall && calleeName(cc) == "builtin:copy" {
						sorted = true
					}
				}
			}
		}
	})
	if sorted {
		return ""
	}
	return "only ever grows by append at its end (arrival order) and is never sorted"
}

// capturesParam: the free variable term x of function literal g is bound to a parameter of the enclosing
// function (directly, or to the cell the parameter was spilled into).
func capturesParam(g *ssa.Function, x *Term) bool {
	fv, ok := x.V.(*ssa.FreeVar)
	if !ok || g.Parent() == nil {
		return false
	}
	idx := -1
	for k, f := range g.FreeVars {
		if f == fv {
			idx = k
		}
	}
	if idx < 0 {
		return false
	}
	found := false
	eachInstr(g.Parent(), func(i ssa.Instruction) {
		mc, ok := i.(*ssa.MakeClosure)
		if !ok || mc.Fn != ssa.Value(g) || idx >= len(mc.Bindings) {
			return
		}
		switch b := mc.Bindings[idx].(type) {
		case *ssa.Parameter:
			found = true
		case *ssa.Alloc:
			if b.Referrers() != nil {
				for _, r := range *b.Referrers() {
					if st, isSt := r.(*ssa.Store); isSt && st.Addr == ssa.Value(b) {
						if _, isP := st.Val.(*ssa.Parameter); isP {
							found = true
						}
					}
				}
			}
		}
	})
	return found
}

// loopVarCapture: inside a loop, a function literal captures a variable that is declared outside the
// loop's blocks (one cell for all iterations) and is assigned the loop's current element in every
// iteration, and the literal is kept beyond the iteration (appended, stored, started as a goroutine).
func loopVarCapture(c *Ctx, g *ssa.Function, short1 string) {
	eachInstr(g, func(i ssa.Instruction) {
		mc, ok := i.(*ssa.MakeClosure)
		if !ok {
			return
		}
		h := enclosingLoopHeader(mc.Block())
		if h == nil {
			return
		}
		loop := naturalLoopOf(h)
		// kept beyond the iteration?
		kept := false
		seenV := map[ssa.Value]bool{}
		var follow func(v ssa.Value)
		follow = func(v ssa.Value) {
			if seenV[v] || v.Referrers() == nil {
				return
			}
			seenV[v] = true
			for _, r := range *v.Referrers() {
				switch x := r.(type) {
				case *ssa.Call:
					if x.Call.Value == v {
						continue // called, here or later in the same iteration: not kept
					}
					// handed to a function as a callback (sort.Search, strings.Map, a visitor): used during the call;
					// only append keeps it
					if calleeName(x) == "builtin:append" {
						kept = true
					}
				case *ssa.Phi:
					if loop[x.Block()] {
						follow(x) // one of several literals chosen within the iteration
					} else {
						kept = true
					}
				case *ssa.Go, *ssa.Defer, *ssa.Store, *ssa.MakeInterface, *ssa.MapUpdate, *ssa.Send:
					kept = true
				}
			}
		}
		follow(mc)
		if !kept {
			return
		}
		for _, b := range mc.Bindings {
			a, ok := b.(*ssa.Alloc)
			if !ok || loop[a.Block()] || a.Referrers() == nil {
				continue
			}
			for _, r := range *a.Referrers() {
				st, isSt := r.(*ssa.Store)
				if !isSt || st.Addr != ssa.Value(a) || !loop[st.Block()] {
					continue
				}
				elem := false
				switch v := st.Val.(type) {
				case *ssa.Extract:
					_, elem = v.Tuple.(*ssa.Next)
				case *ssa.UnOp:
					if ia, isIA := v.X.(*ssa.IndexAddr); isIA && v.Op.String() == "*" {
						elem = isRangeIndex(ia.Index)
					}
				}
				if elem {
					c.bad("STATE", "loopvar-capture:"+short1+"."+a.Comment, mc.Pos(), fmt.Sprintf("%s keeps, for use after the iteration, a function literal that reads the loop variable %s; that variable is a single one for the whole loop (the module's go directive predates per-iteration loop variables), so every literal kept sees the last element only", short1, a.Comment))
					return
				}
			}
		}
	})
}

// loopVarAddress: the ADDRESS of a range variable is kept beyond the iteration (put into an interface, a
// record or a list): with one variable for the whole loop, everything kept points at the last element.
func loopVarAddress(c *Ctx, g *ssa.Function, short1 string) {
	eachInstr(g, func(i ssa.Instruction) {
		a, ok := i.(*ssa.Alloc)
		if !ok || !a.Heap || a.Referrers() == nil {
			return
		}
		// assigned from the range element inside a loop the variable is declared outside of
		var loop map[*ssa.BasicBlock]bool
		for _, r := range *a.Referrers() {
			st, isSt := r.(*ssa.Store)
			if !isSt || st.Addr != ssa.Value(a) {
				continue
			}
			h := enclosingLoopHeader(st.Block())
			if h == nil || naturalLoopOf(h)[a.Block()] {
				continue
			}
			elem := false
			switch v := st.Val.(type) {
			case *ssa.Extract:
				_, elem = v.Tuple.(*ssa.Next)
			case *ssa.UnOp:
				if ia, isIA := v.X.(*ssa.IndexAddr); isIA && v.Op.String() == "*" {
					elem = isRangeIndex(ia.Index)
				}
			}
			if elem {
				loop = naturalLoopOf(h)
			}
		}
		if loop == nil {
			return
		}
		for _, r := range *a.Referrers() {
			if !loop[r.Block()] {
				continue
			}
			kept := false
			switch x := r.(type) {
			case *ssa.MakeInterface:
				kept = x.X == ssa.Value(a)
			case *ssa.Store:
				kept = x.Val == ssa.Value(a)
			case *ssa.Call:
				if calleeName(x) == "builtin:append" {
					for _, arg := range x.Call.Args {
						if arg == ssa.Value(a) {
							kept = true
						}
					}
				}
			case *ssa.MapUpdate:
				kept = x.Value == ssa.Value(a)
			case *ssa.Go:
				// handed to a goroutine, which runs on while the loop assigns the next element
				for _, arg := range x.Call.Args {
					if arg == ssa.Value(a) {
						kept = true
					}
				}
			case *ssa.Phi:
				// p = &v on some iteration, p used once the loop is over
				seenP := map[*ssa.Phi]bool{}
				var after func(ph *ssa.Phi) bool
				after = func(ph *ssa.Phi) bool {
					if seenP[ph] || ph.Referrers() == nil {
						return false
					}
					seenP[ph] = true
					for _, pr := range *ph.Referrers() {
						if _, isDbg := pr.(*ssa.DebugRef); isDbg {
							continue
						}
						if p2, isPhi := pr.(*ssa.Phi); isPhi {
							if after(p2) {
								return true
							}
							continue
						}
						if !loop[pr.Block()] {
							return true
						}
					}
					return false
				}
				kept = after(x)
			}
			if kept {
				// only when the loop can go round again after this point (taking the address and leaving the
				// loop at once keeps the element that was wanted)
				from := r.Block()
				if ph, isPhi := r.(*ssa.Phi); isPhi {
					for k, e := range ph.Edges {
						if e == ssa.Value(a) {
							from = ph.Block().Preds[k]
						}
					}
				}
				goesOn := false
				var hdrs []*ssa.BasicBlock
				for b := range loop {
					for _, p := range b.Preds {
						if b.Dominates(p) && loop[p] {
							hdrs = append(hdrs, b)
						}
					}
				}
				seenB := map[*ssa.BasicBlock]bool{}
				stack := []*ssa.BasicBlock{from}
				first := true
				for len(stack) > 0 && !goesOn {
					b := stack[len(stack)-1]
					stack = stack[:len(stack)-1]
					if !first {
						for _, h := range hdrs {
							if b == h {
								goesOn = true
							}
						}
					}
					first = false
					if seenB[b] || !loop[b] {
						continue
					}
					seenB[b] = true
					stack = append(stack, b.Succs...)
				}
				if !goesOn {
					continue
				}
				c.bad("STATE", "loopvar-capture:"+short1+"."+a.Comment, a.Pos(), fmt.Sprintf("%s keeps the address of the loop variable %s for use after the iteration; that variable is a single one for the whole loop (the module's go directive predates per-iteration loop variables), so everything kept points at the last element", short1, a.Comment))
				return
			}
		}
	})
}

// poolToGoroutine: an object taken from a sync.Pool is handed to a goroutine started here, and is put
// back into the pool by this function (deferred or before returning): the goroutine goes on using an
// object that the next Get hands to someone else.
func poolToGoroutine(c *Ctx, g *ssa.Function, short1 string) {
	putVals := map[ssa.Value]ssa.Instruction{}
	goVals := map[ssa.Value]bool{}
	eachInstr(g, func(j ssa.Instruction) {
		switch x := j.(type) {
		case *ssa.Go:
			for _, a := range x.Call.Args {
				goVals[unwrap(a)] = true
			}
			if mc, isMC := x.Call.Value.(*ssa.MakeClosure); isMC {
				for _, b := range mc.Bindings {
					goVals[unwrap(b)] = true
				}
			}
		case ssa.CallInstruction:
			if calleeName(x) == "(*sync.Pool).Put" {
				as := x.Common().Args
				putVals[unwrap(as[len(as)-1])] = j
			}
		}
	})
	for v, at := range putVals {
		if _, isConst := v.(*ssa.Const); isConst {
			continue
		}
		if goVals[v] {
			c.bad("STATE", "pool-to-goroutine:"+short1, at.Pos(), fmt.Sprintf("%s hands an object to a goroutine it starts and puts the same object into a sync.Pool itself: the goroutine keeps using an object that the next Get gives to another caller", short1))
			return
		}
	}
}

// poolSliceHygiene: a *[]T taken from a sync.Pool whose content is used as it comes (ranged over,
// appended to, searched) without first being cut to length 0: the list still holds what an earlier call
// put there, so this call's answer depends on earlier calls.
func poolSliceHygiene(c *Ctx, g *ssa.Function, short1 string) {
	eachInstr(g, func(i ssa.Instruction) {
		get, ok := i.(*ssa.Call)
		if !ok || calleeName(get) != "(*sync.Pool).Get" || get.Referrers() == nil {
			return
		}
		for _, r := range *get.Referrers() {
			ta, ok := r.(*ssa.TypeAssert)
			if !ok {
				continue
			}
			pt, isPtr := ta.AssertedType.Underlying().(*types.Pointer)
			if !isPtr {
				continue
			}
			if _, isSlice := pt.Elem().Underlying().(*types.Slice); !isSlice {
				continue
			}
			var obj ssa.Value = ta
			if ta.CommaOk {
				obj = nil
				if ta.Referrers() != nil {
					for _, rr := range *ta.Referrers() {
						if ex, isEx := rr.(*ssa.Extract); isEx && ex.Index == 0 {
							obj = ex
						}
					}
				}
			}
			if obj == nil || obj.Referrers() == nil {
				continue
			}
			// the pointer itself may live in a cell (a deferred function literal puts it back): loads of the cell are the pointer
			objs := []ssa.Value{obj}
			for _, rr := range *obj.Referrers() {
				if st, isSt := rr.(*ssa.Store); isSt && st.Val == obj {
					if cell, isCell := st.Addr.(*ssa.Alloc); isCell && cell.Referrers() != nil {
						for _, cr := range *cell.Referrers() {
							if cl, isLoad := cr.(*ssa.UnOp); isLoad && cl.Op.String() == "*" {
								objs = append(objs, cl)
							}
						}
					}
				}
			}
			var derefs []ssa.Instruction
			for _, o := range objs {
				if o.Referrers() != nil {
					derefs = append(derefs, *o.Referrers()...)
				}
			}
			for _, rr := range derefs {
				ld, isLd := rr.(*ssa.UnOp)
				if !isLd || ld.Op.String() != "*" || ld.Referrers() == nil {
					continue
				}
				// old content is READ: the list is appended onto, ranged over or searched as it comes. A list that
				// is resized and then overwritten element by element (or cut to [:0]) is re-initialised, not read.
				asIs := false
				uses := append([]ssa.Instruction{}, *ld.Referrers()...)
				// the list kept in a local that a function literal also sees: loads of that cell are uses of the list
				for _, u := range *ld.Referrers() {
					if st, isSt := u.(*ssa.Store); isSt && st.Val == ssa.Value(ld) {
						if cell, isCell := st.Addr.(*ssa.Alloc); isCell && cell.Referrers() != nil {
							for _, cr := range *cell.Referrers() {
								if cl, isLoad := cr.(*ssa.UnOp); isLoad && cl.Op.String() == "*" && cl.Referrers() != nil {
									uses = append(uses, *cl.Referrers()...)
								}
							}
						}
					}
				}
				for _, u := range uses {
					switch x := u.(type) {
					case *ssa.Range:
						asIs = true
					case *ssa.Call:
						n := calleeName(x)
						if n == "builtin:append" && len(x.Call.Args) > 0 {
							if a0, isLoad := x.Call.Args[0].(*ssa.UnOp); isLoad || x.Call.Args[0] == ssa.Value(ld) {
								_ = a0
								asIs = true
							}
						}
						if strings.HasPrefix(n, "sort.Search") || n == "strings.Join" {
							asIs = true
						}
					case *ssa.Phi:
						// the loop-carried list of an accumulation loop starts from the pooled content
						asIs = true
					}
				}
				// the list is taken with the LENGTH it comes with (len of this very value) and read by index: when an
				// earlier call left it longer than this call needs, the old tail is scanned as if it were data
				oldLength := false
				{
					lenUsed, readByIndex := false, false
					for _, u := range uses {
						switch x := u.(type) {
						case *ssa.Call:
							if calleeName(x) == "builtin:len" {
								lenUsed = true
							}
						case *ssa.IndexAddr:
							if x.Referrers() != nil {
								for _, rr := range *x.Referrers() {
									if l3, isL := rr.(*ssa.UnOp); isL && l3.Op.String() == "*" {
										readByIndex = true
									}
								}
							}
						}
					}
					oldLength = lenUsed && readByIndex
				}
				if oldLength && !asIs {
					c.bad("STATE", "pool-content:"+short1, ld.Pos(), fmt.Sprintf("%s takes a list from a sync.Pool and works on it at the length it comes with (len of the pooled value, elements read by index), growing it only when it is too short: after a call that needed a longer list the old tail is still there and is read as data", short1))
					return
				}
				if asIs {
					// ... unless the function also writes the list's elements by index (a re-initialising loop)
					eachInstr(g, func(j ssa.Instruction) {
						if st, ok := j.(*ssa.Store); ok {
							if ia, ok := st.Addr.(*ssa.IndexAddr); ok {
								if l2, ok := ia.X.(*ssa.UnOp); ok && l2.Op.String() == "*" {
									for _, o := range objs {
										if l2.X == o {
											asIs = false
										}
									}
								}
							}
						}
					})
				}
				if asIs {
					c.bad("STATE", "pool-content:"+short1, ld.Pos(), fmt.Sprintf("%s takes a list from a sync.Pool and uses its content as it comes, without cutting it to length 0 first: the list still holds what an earlier call left in it, so this call depends on earlier calls", short1))
					return
				}
			}
		}
	})
}

// lastLineDropped: line, err := r.ReadString(d) (or ReadBytes) whose line is looked at only where err is
// nil. ReadString returns the data read before the error together with the error: at end of input that is
// the final line when it lacks the delimiter. A branch on err != nil that never touches the line loses it.
func lastLineDropped(c *Ctx, g *ssa.Function, short1 string) {
	eachInstr(g, func(i ssa.Instruction) {
		call, ok := i.(*ssa.Call)
		if !ok || call.Referrers() == nil {
			return
		}
		n := calleeName(call)
		if n != "(*bufio.Reader).ReadString" && n != "(*bufio.Reader).ReadBytes" {
			return
		}
		var line, errV ssa.Value
		for _, r := range *call.Referrers() {
			if ex, isEx := r.(*ssa.Extract); isEx {
				if ex.Index == 0 {
					line = ex
				} else {
					errV = ex
				}
			}
		}
		if line == nil || errV == nil || errV.Referrers() == nil || line.Referrers() == nil {
			return
		}
		// the branch on err != nil / err == nil taken directly on this error
		var errIf *ssa.If
		onTrueIsErr := true
		for _, r := range *errV.Referrers() {
			bo, ok := r.(*ssa.BinOp)
			if !ok || bo.Referrers() == nil {
				continue
			}
			k, isK := bo.Y.(*ssa.Const)
			if !isK || !k.IsNil() {
				continue
			}
			for _, rr := range *bo.Referrers() {
				if ifi, isIf := rr.(*ssa.If); isIf && ifi.Block() == call.Block() {
					errIf, onTrueIsErr = ifi, bo.Op.String() == "!="
				}
			}
		}
		if errIf == nil {
			return
		}
		okSucc := errIf.Block().Succs[1]
		if !onTrueIsErr {
			okSucc = errIf.Block().Succs[0]
		}
		if len(okSucc.Preds) != 1 {
			return // the two branches join at once: the line is looked at on both
		}
		used := false
		onlyWhereOK := true
		for _, r := range *line.Referrers() {
			if _, isDbg := r.(*ssa.DebugRef); isDbg {
				continue
			}
			used = true
			if !(r.Block() == okSucc || okSucc.Dominates(r.Block())) {
				onlyWhereOK = false
			}
		}
		if used && onlyWhereOK {
			c.bad("STATE", "last-line:"+short1, call.Pos(), fmt.Sprintf("%s reads lines with %s and looks at the line only where the error is nil: at the end of an input whose last line has no line feed, ReadString hands back that line TOGETHER with io.EOF, and it is dropped", short1, n))
		}
	})
}

// unsafeAlias: a string or slice header built over the bytes of an argument with package unsafe: the result
// shares memory with the caller's buffer and changes when the caller re-uses it.
func unsafeAlias(c *Ctx, g *ssa.Function, short1 string) {
	tb := newTB(g)
	eachInstr(g, func(i ssa.Instruction) {
		cv, ok := i.(*ssa.Convert)
		if !ok || tname(cv.Type()) != "unsafe.Pointer" {
			return
		}
		d, _ := dependsOnArgs(tb.T(cv.X))
		if a, isA := cv.X.(*ssa.Alloc); isA && a.Referrers() != nil {
			// &param: the parameter lives in a cell because its address is taken
			for _, r := range *a.Referrers() {
				if st, isSt := r.(*ssa.Store); isSt && st.Addr == ssa.Value(a) {
					if _, isP := st.Val.(*ssa.Parameter); isP {
						d = true
					}
				}
			}
		}
		if d {
			c.bad("STATE", "unsafe-alias:"+short1, cv.Pos(), fmt.Sprintf("%s converts memory of an argument through unsafe.Pointer (a string made over the caller's bytes without a copy): what it returns changes when the caller re-uses the buffer", short1))
		}
	})
}

// unflushedWriter: a bufio.Writer made in g, written through, and never flushed nor handed to anything that
// could flush it: whatever is still in its buffer when g returns (everything, for output below the buffer
// size) never reaches the destination.
func unflushedWriter(c *Ctx, g *ssa.Function, short1 string) {
	eachInstr(g, func(i ssa.Instruction) {
		mk, ok := i.(*ssa.Call)
		if !ok {
			return
		}
		if n := calleeName(mk); n != "bufio.NewWriter" && n != "bufio.NewWriterSize" {
			return
		}
		flushed, escapes, writes := false, false, 0
		escapesModule, stdHolders := false, 0
		seen := map[ssa.Value]bool{}
		var follow func(v ssa.Value)
		follow = func(v ssa.Value) {
			if seen[v] || v.Referrers() == nil {
				return
			}
			seen[v] = true
			for _, r := range *v.Referrers() {
				switch x := r.(type) {
				case *ssa.DebugRef:
				case *ssa.MakeInterface:
					follow(x)
				case *ssa.ChangeInterface:
					follow(x)
				case ssa.CallInstruction:
					cm := x.Common()
					n := calleeName(x)
					switch {
					case cm.IsInvoke() && cm.Value == v:
						// a method called through an interface the writer was put into
						switch cm.Method.Name() {
						case "Flush":
							flushed = true
						case "Write", "WriteString", "WriteByte", "WriteRune":
							writes++
						default:
							escapes = true
						}
					case strings.HasPrefix(n, "(*bufio.Writer)."):
						switch strings.TrimPrefix(n, "(*bufio.Writer).") {
						case "Flush":
							flushed = true
						case "Write", "WriteString", "WriteByte", "WriteRune", "ReadFrom":
							writes++
						case "Reset":
							escapes = true
						}
					case n == "fmt.Fprintf" || n == "fmt.Fprint" || n == "fmt.Fprintln" || n == "io.WriteString" || n == "io.Copy" || n == "io.CopyN" || n == "io.CopyBuffer":
						writes++
					case strings.HasSuffix(n, ".WriteTo"):
						writes++
					default:
						escapes = true // another function holds it now: it may flush
						if f := cm.StaticCallee(); f != nil && !inModule(f) && !cm.IsInvoke() {
							stdHolders++ // a library encoder or writer wrapped around it: writes through it, never flushes it
						} else {
							escapesModule = true
						}
					}
				default:
					escapes = true // stored, merged, returned, captured
					escapesModule = true
				}
			}
		}
		follow(mk)
		// flushed by a deferred call that was registered BEFORE the deferred Close of what it writes to: deferred
		// calls run last-in-first-out, so the file is closed first and the flush fails silently
		if !escapesModule && writes+stdHolders > 0 && len(mk.Call.Args) > 0 {
			under := unwrapIface(mk.Call.Args[0])
			var dFlush, dClose *ssa.Defer
			plainFlush := false
			eachInstr(g, func(j ssa.Instruction) {
				switch x := j.(type) {
				case *ssa.Defer:
					n := calleeName(x)
					if n == "(*bufio.Writer).Flush" && len(x.Call.Args) > 0 && x.Call.Args[0] == ssa.Value(mk) {
						dFlush = x
					}
					if strings.HasSuffix(n, ".Close") {
						var recv ssa.Value
						if x.Call.IsInvoke() {
							recv = unwrapIface(x.Call.Value)
						} else if len(x.Call.Args) > 0 {
							recv = unwrapIface(x.Call.Args[0])
						}
						if recv == under {
							dClose = x
						}
					}
				case *ssa.Call:
					if calleeName(x) == "(*bufio.Writer).Flush" && len(x.Call.Args) > 0 && x.Call.Args[0] == ssa.Value(mk) {
						plainFlush = true
					}
				}
			})
			if dFlush != nil && dClose != nil && !plainFlush && domInstr(dFlush, dClose) {
				c.bad("STATE", "unflushed-writer:"+short1, dFlush.Pos(), fmt.Sprintf("%s defers the Flush of its bufio.Writer before it defers the Close of the file underneath: deferred calls run in reverse order, so the file is closed first and what is still in the buffer (all of it, for output smaller than the buffer) is never written", short1))
				return
			}
		}
		if escapes || flushed || writes == 0 {
			return
		}
		c.bad("STATE", "unflushed-writer:"+short1, mk.Pos(), fmt.Sprintf("%s writes through a bufio.Writer that is never flushed and never leaves the function: what is still in its buffer when %s returns (all of it, for output smaller than the buffer) never reaches the destination", short1, short1))
	})
}


type precVerb struct {
	verb    string
	operand int
	prec    int
}

// precisionVerbs lists the %s / %v / %q verbs of a format that carry an explicit precision, with the index of
// the operand each consumes (explicit argument indexes and '*' make the layout unreadable: nothing is listed).
func precisionVerbs(f string) []precVerb {
	var out []precVerb
	op := 0
	for i := 0; i < len(f); i++ {
		if f[i] != '%' {
			continue
		}
		j := i + 1
		for j < len(f) && strings.IndexByte("+-# 0", f[j]) >= 0 {
			j++
		}
		for j < len(f) && f[j] >= '0' && f[j] <= '9' {
			j++
		}
		prec, hasPrec := 0, false
		if j < len(f) && f[j] == '.' {
			j++
			hasPrec = true
			for j < len(f) && f[j] >= '0' && f[j] <= '9' {
				prec = prec*10 + int(f[j]-'0')
				j++
			}
		}
		if j >= len(f) {
			break
		}
		switch f[j] {
		case '%':
		case '[', '*':
			return nil
		default:
			if hasPrec && (f[j] == 's' || f[j] == 'v' || f[j] == 'q') {
				out = append(out, precVerb{f[i : j+1], op, prec})
			}
			op++
		}
		i = j
	}
	return out
}

// variadicOperands: the values packed into the ...any slice of a call, by position.
func variadicOperands(v ssa.Value) map[int]ssa.Value {
	out := map[int]ssa.Value{}
	sl, ok := v.(*ssa.Slice)
	if !ok {
		return out
	}
	al, ok := sl.X.(*ssa.Alloc)
	if !ok || al.Referrers() == nil {
		return out
	}
	for _, r := range *al.Referrers() {
		ia, ok := r.(*ssa.IndexAddr)
		if !ok || ia.Referrers() == nil {
			continue
		}
		k, isC := ia.Index.(*ssa.Const)
		if !isC {
			continue
		}
		for _, r2 := range *ia.Referrers() {
			if st, isSt := r2.(*ssa.Store); isSt && st.Addr == ssa.Value(ia) {
				x := st.Val
				if mi, isMI := x.(*ssa.MakeInterface); isMI {
					x = mi.X
				}
				out[int(k.Int64())] = x
			}
		}
	}
	return out
}

func isTextType(t types.Type) bool {
	switch u := t.Underlying().(type) {
	case *types.Basic:
		return u.Info()&types.IsString != 0
	case *types.Slice:
		b, ok := u.Elem().Underlying().(*types.Basic)
		return ok && b.Kind() == types.Byte
	}
	return false
}


// freeLeaves: v, inside the function literal g, is computed from variables of the enclosing function only.
// Returns what those variables are computed from there, as access paths rooted at the ENCLOSING function's
// parameters; ok is false when v also depends on something that cannot be read this way.
func freeLeaves(g *ssa.Function, v ssa.Value) (leaves []string, ok bool) {
	parent := g.Parent()
	if parent == nil {
		return nil, false
	}
	var mc *ssa.MakeClosure
	eachInstr(parent, func(i ssa.Instruction) {
		if m, isM := i.(*ssa.MakeClosure); isM && m.Fn == ssa.Value(g) {
			mc = m
		}
	})
	if mc == nil {
		return nil, false
	}
	ptb := newTB(parent)
	ok = true
	seenL := map[string]bool{}
	add := func(t *Term) {
		l, o := argLeaves(t)
		for _, x := range l {
			if !seenL[x] {
				seenL[x] = true
				leaves = append(leaves, x)
			}
		}
		if o {
			// merges of values are fine here (every alternative's leaves are collected); only what has no
			// readable origin at all makes the answer incomplete
			if t.contains(func(x *Term) bool { return x.Op == "freevar" || x.Op == "unknown" || x.Op == "closure" }) {
				ok = false
			}
		}
	}
	bind := func(fv *ssa.FreeVar) {
		for i, f := range g.FreeVars {
			if f != fv || i >= len(mc.Bindings) {
				continue
			}
			b := mc.Bindings[i]
			a, isCell := b.(*ssa.Alloc)
			if !isCell {
				add(ptb.T(b))
				return
			}
			n := 0
			var stores func(addr ssa.Value, d int)
			stores = func(addr ssa.Value, d int) {
				if addr.Referrers() == nil || d > 3 {
					return
				}
				for _, r := range *addr.Referrers() {
					switch x := r.(type) {
					case *ssa.Store:
						if x.Addr == addr {
							n++
							add(ptb.T(x.Val))
						}
					case *ssa.FieldAddr:
						stores(x, d+1)
					case *ssa.IndexAddr:
						stores(x, d+1)
					}
				}
			}
			stores(a, 0)
			if n == 0 {
				ok = false
			}
			return
		}
		ok = false
	}
	seen := map[ssa.Value]bool{}
	var visit func(x ssa.Value, d int)
	visit = func(x ssa.Value, d int) {
		if x == nil || seen[x] {
			return
		}
		seen[x] = true
		if d > 20 {
			ok = false
			return
		}
		switch y := x.(type) {
		case *ssa.FreeVar:
			bind(y)
		case *ssa.Const, *ssa.Global, *ssa.Function, *ssa.Builtin:
		case *ssa.Parameter:
			ok = false
		case *ssa.Alloc:
			// a local container: whatever is stored into it
			var into func(addr ssa.Value, dd int)
			into = func(addr ssa.Value, dd int) {
				if addr.Referrers() == nil || dd > 3 {
					return
				}
				for _, r := range *addr.Referrers() {
					switch z := r.(type) {
					case *ssa.Store:
						if z.Addr == addr {
							visit(z.Val, d+1)
						}
					case *ssa.FieldAddr:
						into(z, dd+1)
					case *ssa.IndexAddr:
						into(z, dd+1)
					}
				}
			}
			into(y, 0)
		default:
			in, isInstr := x.(ssa.Instruction)
			if !isInstr {
				ok = false
				return
			}
			for _, op := range in.Operands(nil) {
				if *op != nil {
					visit(*op, d+1)
				}
			}
		}
	}
	visit(v, 0)
	return leaves, ok && len(leaves) > 0
}

// pooledObjects: the objects taken from a sync.Pool in g (the asserted value of each Get, plus the loads of a
// cell the pointer is kept in).
func pooledObjects(g *ssa.Function) [][]ssa.Value {
	var out [][]ssa.Value
	eachInstr(g, func(i ssa.Instruction) {
		get, ok := i.(*ssa.Call)
		if !ok || calleeName(get) != "(*sync.Pool).Get" || get.Referrers() == nil {
			return
		}
		for _, r := range *get.Referrers() {
			ta, ok := r.(*ssa.TypeAssert)
			if !ok {
				continue
			}
			var obj ssa.Value = ta
			if ta.CommaOk {
				obj = nil
				if ta.Referrers() != nil {
					for _, rr := range *ta.Referrers() {
						if ex, isEx := rr.(*ssa.Extract); isEx && ex.Index == 0 {
							obj = ex
						}
					}
				}
			}
			if obj == nil || obj.Referrers() == nil {
				continue
			}
			objs := []ssa.Value{obj}
			for _, rr := range *obj.Referrers() {
				if st, isSt := rr.(*ssa.Store); isSt && st.Val == obj {
					if cell, isCell := st.Addr.(*ssa.Alloc); isCell && cell.Referrers() != nil {
						for _, cr := range *cell.Referrers() {
							if cl, isLoad := cr.(*ssa.UnOp); isLoad && cl.Op.String() == "*" {
								objs = append(objs, cl)
							}
						}
					}
				}
			}
			out = append(out, objs)
		}
	})
	return out
}

// poolUseAfterPut: an object is put back into its pool and memory reached through it is used afterwards in
// the same function (a slice of its content converted or copied after the Put): from the Put on, the next
// Get may hand the object to another goroutine, which overwrites what is still being read.
func poolUseAfterPut(c *Ctx, g *ssa.Function, short1 string) {
	for _, objs := range pooledObjects(g) {
		// everything derived from the object without a call: loads, slices, element and field addresses
		derived := map[ssa.Value]bool{}
		var work []ssa.Value
		for _, o := range objs {
			derived[o] = true
			work = append(work, o)
		}
		isObj := map[ssa.Value]bool{}
		for _, o := range objs {
			isObj[o] = true
		}
		for len(work) > 0 {
			v := work[len(work)-1]
			work = work[:len(work)-1]
			if v.Referrers() == nil {
				continue
			}
			for _, r := range *v.Referrers() {
				switch x := r.(type) {
				case *ssa.UnOp, *ssa.Slice, *ssa.IndexAddr, *ssa.FieldAddr, *ssa.Index, *ssa.Field, *ssa.ChangeType:
					xv := x.(ssa.Value)
					if u, isU := x.(*ssa.UnOp); isU && u.Op.String() != "*" {
						continue
					}
					if !derived[xv] {
						derived[xv] = true
						work = append(work, xv)
					}
				}
			}
		}
		var puts []ssa.Instruction
		for _, o := range objs {
			if o.Referrers() == nil {
				continue
			}
			for _, r := range *o.Referrers() {
				mi, isMI := r.(*ssa.MakeInterface)
				if !isMI || mi.Referrers() == nil {
					continue
				}
				for _, rr := range *mi.Referrers() {
					if cl, isCall := rr.(*ssa.Call); isCall && calleeName(cl) == "(*sync.Pool).Put" {
						puts = append(puts, cl)
					}
				}
			}
		}
		for _, p := range puts {
			var late ssa.Instruction
			for d := range derived {
				if isObj[d] || d.Referrers() == nil {
					continue
				}
				// only content counts: the slices and elements, not the pointer
				if _, isPtrLoad := d.(*ssa.UnOp); isPtrLoad {
					if _, isSl := d.Type().Underlying().(*types.Slice); !isSl {
						continue
					}
				}
				for _, r := range *d.Referrers() {
					if _, isDbg := r.(*ssa.DebugRef); isDbg {
						continue
					}
					if r != p && domInstr(p, r) && (late == nil || r.Pos() < late.Pos()) {
						late = r
					}
				}
			}
			if late != nil {
				c.bad("STATE", "pool-use-after-put:"+short1, p.Pos(), fmt.Sprintf("%s puts an object back into its sync.Pool and still uses memory reached through it afterwards (at %s): from the Put on another goroutine's Get may receive the object and overwrite what is being read", short1, c.W.pos(late.Pos())))
				return
			}
		}
	}
}

// poolBufferHygiene: a pooled bytes.Buffer / strings.Builder that is written to as it comes and not emptied on
// every way out: what one call leaves in it (a call that returned early with an error, say) comes out in
// front of the next call's output.
func poolBufferHygiene(c *Ctx, g *ssa.Function, short1 string) {
	for _, objs := range pooledObjects(g) {
		tn := tname(objs[0].Type())
		if tn != "*bytes.Buffer" && tn != "*strings.Builder" {
			continue
		}
		recv := strings.TrimPrefix(tn, "*")
		var resets, writes, reads []ssa.Instruction
		deferredPut := false
		var puts []ssa.Instruction
		escapes := false
		for _, o := range objs {
			if o.Referrers() == nil {
				continue
			}
			for _, r := range *o.Referrers() {
				switch x := r.(type) {
				case *ssa.DebugRef, *ssa.Store:
				case *ssa.MakeInterface:
					if x.Referrers() != nil {
						for _, rr := range *x.Referrers() {
							ci, isCI := rr.(ssa.CallInstruction)
							if !isCI {
								escapes = true
								continue
							}
							switch n := calleeName(ci); {
							case n == "(*sync.Pool).Put":
								if _, isDefer := rr.(*ssa.Defer); isDefer {
									deferredPut = true
								} else {
									puts = append(puts, rr)
								}
							case strings.HasPrefix(n, "fmt.Fprint") || n == "io.WriteString" || n == "io.Copy":
								writes = append(writes, rr)
							default:
								escapes = true
							}
						}
					}
				case ssa.CallInstruction:
					n := calleeName(x)
					if !strings.HasPrefix(n, "(*"+recv+").") {
						escapes = true
						continue
					}
					switch m := strings.TrimPrefix(n, "(*"+recv+")."); {
					case m == "Reset" || m == "Truncate":
						resets = append(resets, r)
					case strings.HasPrefix(m, "Write") || m == "ReadFrom":
						writes = append(writes, r)
					case m == "String" || m == "Bytes" || m == "Len":
						reads = append(reads, r)
					}
				default:
					escapes = true
				}
			}
		}
		if escapes || len(writes) == 0 || (!deferredPut && len(puts) == 0) {
			continue
		}
		// emptied on the way in: a reset before anything is written or read
		freshOnGet := false
		for _, rs := range resets {
			all := true
			for _, w := range append(append([]ssa.Instruction{}, writes...), reads...) {
				if !domInstr(rs, w) {
					all = false
				}
			}
			if all {
				freshOnGet = true
			}
		}
		if freshOnGet {
			continue
		}
		// emptied on every way out: from each write, every path to an exit passes a reset
		resetIn := map[*ssa.BasicBlock][]ssa.Instruction{}
		for _, rs := range resets {
			resetIn[rs.Block()] = append(resetIn[rs.Block()], rs)
		}
		exits := map[*ssa.BasicBlock]bool{}
		if deferredPut {
			for _, r := range returnsOf(g) {
				exits[r.Block()] = true
			}
		}
		for _, p := range puts {
			exits[p.Block()] = true
		}
		idx := func(in ssa.Instruction) int {
			for k, x := range in.Block().Instrs {
				if x == in {
					return k
				}
			}
			return -1
		}
		var leak ssa.Instruction
		for _, w := range writes {
			covered := false
			for _, rs := range resetIn[w.Block()] {
				if idx(rs) > idx(w) {
					covered = true
				}
			}
			if covered {
				continue
			}
			if exits[w.Block()] {
				leak = w
				break
			}
			seen := map[*ssa.BasicBlock]bool{}
			stack := append([]*ssa.BasicBlock{}, w.Block().Succs...)
			for len(stack) > 0 && leak == nil {
				b := stack[len(stack)-1]
				stack = stack[:len(stack)-1]
				if seen[b] {
					continue
				}
				seen[b] = true
				if len(resetIn[b]) > 0 {
					continue
				}
				if exits[b] {
					leak = w
					break
				}
				stack = append(stack, b.Succs...)
			}
			if leak != nil {
				break
			}
		}
		if leak != nil {
			c.bad("STATE", "pool-content:"+short1, leak.Pos(), fmt.Sprintf("%s writes into a pooled %s without emptying it first, and there is a way out on which it goes back to the pool with that content (an early return): the next call's output starts with what this one left behind", short1, recv))
		}
	}
}

// rangeDelete: an element is cut out of a list with append(s[:i], s[i+1:]...) inside a range loop over that
// same list, and the loop goes on: the following element slides into the slot just visited and is never
// looked at (and the loop still runs to the old length over a shifted tail).
func rangeDelete(c *Ctx, g *ssa.Function, short1 string) {
	root := func(v ssa.Value) ssa.Value {
		for d := 0; d < 12; d++ {
			switch x := v.(type) {
			case *ssa.Slice:
				v = x.X
			case *ssa.Call:
				if calleeName(x) == "builtin:append" {
					v = x.Call.Args[0]
				} else {
					return v
				}
			case *ssa.Phi:
				// the loop-carried list: every edge is the list at entry or a cut-down version of it
				var first ssa.Value
				for _, e := range x.Edges {
					if e == ssa.Value(x) {
						continue
					}
					if first == nil {
						first = e
					}
				}
				if first == nil {
					return v
				}
				v = first
			default:
				return v
			}
		}
		return v
	}
	eachInstr(g, func(i ssa.Instruction) {
		ap, ok := i.(*ssa.Call)
		if !ok || calleeName(ap) != "builtin:append" || len(ap.Call.Args) != 2 {
			return
		}
		head, ok1 := ap.Call.Args[0].(*ssa.Slice)
		tail, ok2 := ap.Call.Args[1].(*ssa.Slice)
		if !ok1 || !ok2 || head.Low != nil || head.High == nil || tail.High != nil || tail.Low == nil {
			return
		}
		nxt, isBin := tail.Low.(*ssa.BinOp)
		if !isBin || nxt.Op != token.ADD || nxt.X != head.High {
			return
		}
		if k, isC := nxt.Y.(*ssa.Const); !isC || k.Value == nil || k.Value.ExactString() != "1" {
			return
		}
		if root(head.X) != root(tail.X) {
			return
		}
		// head.High is the index of a range loop over the same list
		idx, isIdx := head.High.(*ssa.BinOp)
		if !isIdx || idx.Op != token.ADD {
			return
		}
		ph, isPhi := idx.X.(*ssa.Phi)
		if !isPhi || !strings.HasPrefix(ph.Block().Comment, "rangeindex") || ph.Block() != idx.Block() {
			return
		}
		hdr := ph.Block()
		// the list that is ranged over: len(X) evaluated before the loop, X indexed by idx in the body
		var ranged ssa.Value
		eachInstr(g, func(j ssa.Instruction) {
			if ia, isIA := j.(*ssa.IndexAddr); isIA && ia.Index == ssa.Value(idx) {
				ranged = ia.X
			}
		})
		if ranged == nil || root(ranged) != root(head.X) {
			return
		}
		if !naturalLoopOf(hdr)[ap.Block()] {
			return
		}
		// the loop goes on after the cut
		goesOn := false
		seen := map[*ssa.BasicBlock]bool{}
		stack := append([]*ssa.BasicBlock{}, ap.Block().Succs...)
		for len(stack) > 0 {
			b := stack[len(stack)-1]
			stack = stack[:len(stack)-1]
			if b == hdr {
				goesOn = true
				break
			}
			if seen[b] || !naturalLoopOf(hdr)[b] {
				continue
			}
			seen[b] = true
			stack = append(stack, b.Succs...)
		}
		if goesOn {
			c.bad("STATE", "range-delete:"+short1, ap.Pos(), fmt.Sprintf("%s cuts the current element out of the list it is ranging over (append(s[:i], s[i+1:]...)) and goes on with the loop: the next element slides into the slot just visited and is skipped for this pass", short1))
		}
	})
}


// initOnlyFns: the functions of a property's family that only initialisers call (kept apart: their writes to
// package state are initialisation, but a memo inside them still needs a complete key).
var initOnlyFns = map[*Ctx][]*ssa.Function{}

var initOnlyMemo = map[*World]map[*ssa.Function]bool{}
var initCallers = map[*World]map[*ssa.Function][]*ssa.Function{}

// initOnly: every use of g in the module (call, go, defer, or its value taken) is inside a package
// initialiser or inside a function of which the same is true; and there is at least one such use.
func initOnly(w *World, g *ssa.Function) bool {
	if g.Parent() != nil {
		return false
	}
	callers, ok := initCallers[w]
	if !ok {
		callers = map[*ssa.Function][]*ssa.Function{}
		for _, sp := range w.SSA {
			var fns []*ssa.Function
			for _, m := range sp.Members {
				if f, isF := m.(*ssa.Function); isF {
					fns = append(fns, f)
				}
				if t, isT := m.(*ssa.Type); isT {
					for _, recv := range []types.Type{t.Type(), types.NewPointer(t.Type())} {
						ms := w.Prog.MethodSets.MethodSet(recv)
						for k := 0; k < ms.Len(); k++ {
							if f := w.Prog.MethodValue(ms.At(k)); f != nil {
								fns = append(fns, f)
							}
						}
					}
				}
			}
			for len(fns) > 0 {
				f := fns[0]
				fns = fns[1:]
				if f.Blocks == nil {
					continue
				}
				fns = append(fns, f.AnonFuncs...)
				top := f
				for top.Parent() != nil {
					top = top.Parent()
				}
				eachInstr(f, func(i ssa.Instruction) {
					for _, op := range i.Operands(nil) {
						if op == nil || *op == nil {
							continue
						}
						if callee, isFn := (*op).(*ssa.Function); isFn {
							callers[callee] = append(callers[callee], top)
						}
					}
				})
			}
		}
		initCallers[w] = callers
		initOnlyMemo[w] = map[*ssa.Function]bool{}
	}
	isInit := func(f *ssa.Function) bool {
		return f.Name() == "init" || strings.HasPrefix(f.Name(), "init#")
	}
	visiting := map[*ssa.Function]bool{}
	var only func(f *ssa.Function) bool
	only = func(f *ssa.Function) bool {
		if v, done := initOnlyMemo[w][f]; done {
			return v
		}
		if visiting[f] {
			return true
		}
		visiting[f] = true
		cs := callers[f]
		res := len(cs) > 0
		if f.Object() != nil && f.Object().Exported() {
			res = false // callable from outside the module
		}
		for _, cf := range cs {
			if cf == f {
				continue
			}
			if !isInit(cf) && !only(cf) {
				res = false
			}
		}
		initOnlyMemo[w][f] = res
		return res
	}
	return only(g)
}

// swapReversal: a loop that exchanges elements of one slice in place from both ends (the usual in-place
// reversal, with or without a per-element mapping). For lengths 0..8 the loop's own index arithmetic is
// evaluated (induction variables, guard, index expressions; no code of the module runs) and the resulting
// arrangement compared with the exact reversal. A loop that reverses SOME lengths exactly and not others is a
// reversal with a wrong bound (the central pair left, or exchanged twice). A loop that reverses none is
// something else and is left alone.
func swapReversal(c *Ctx, g *ssa.Function, short1 string) {
	tb := newTB(g)
	for _, hdr := range g.Blocks {
		isHdr := false
		for _, p := range hdr.Preds {
			if hdr.Dominates(p) {
				isHdr = true
			}
		}
		if !isHdr {
			continue
		}
		loop := naturalLoopOf(hdr)
		var base ssa.Value
		var body *ssa.BasicBlock
		nLoads, nStores := 0, 0
		shape := true
		loads := map[*ssa.UnOp]*ssa.IndexAddr{}
		for _, b := range g.Blocks {
			if !loop[b] {
				continue
			}
			for _, in := range b.Instrs {
				var ia *ssa.IndexAddr
				switch x := in.(type) {
				case *ssa.UnOp:
					if x.Op.String() == "*" {
						ia, _ = x.X.(*ssa.IndexAddr)
						if ia != nil {
							if _, isSl := ia.X.Type().Underlying().(*types.Slice); isSl {
								loads[x] = ia
								nLoads++
							} else {
								ia = nil
							}
						}
					}
				case *ssa.Store:
					ia, _ = x.Addr.(*ssa.IndexAddr)
					if ia != nil {
						if _, isSl := ia.X.Type().Underlying().(*types.Slice); isSl {
							nStores++
						} else {
							ia = nil
						}
					}
				}
				if ia == nil {
					continue
				}
				if base == nil {
					base = ia.X
				} else if base != ia.X {
					shape = false
				}
				if body == nil {
					body = b
				} else if body != b {
					shape = false
				}
			}
		}
		if !shape || nStores != 2 || nLoads < 2 || body == nil {
			continue
		}
		ls, _ := newLoopSim(tb, hdr)
		if ls == nil {
			continue
		}
		// the load a stored value is made from
		var feeding func(v ssa.Value, d int) *ssa.UnOp
		feeding = func(v ssa.Value, d int) *ssa.UnOp {
			if d > 6 || v == nil {
				return nil
			}
			if ld, ok := v.(*ssa.UnOp); ok {
				if _, mine := loads[ld]; mine {
					return ld
				}
			}
			in, ok := v.(ssa.Instruction)
			if !ok {
				return nil
			}
			var found *ssa.UnOp
			for _, op := range in.Operands(nil) {
				if *op == nil {
					continue
				}
				if f := feeding(*op, d+1); f != nil {
					if found != nil && found != f {
						return nil
					}
					found = f
				}
			}
			return found
		}
		exact, firstBad, evaluable := 0, int64(-1), true
		var badWhat string
		for n := int64(0); n <= 8 && evaluable; n++ {
			arr := make([]int64, n)
			for k := range arr {
				arr[k] = int64(k)
			}
			fin, whyNot := ls.run(n, nil, 64, func(env map[string]int64) (bool, string) {
				vals := map[*ssa.UnOp]int64{}
				for _, in := range body.Instrs {
					switch x := in.(type) {
					case *ssa.UnOp:
						if ia, mine := loads[x]; mine {
							k, ok := ls.evalInt(tb.T(ia.Index), env, 0)
							if !ok {
								return false, "index not evaluable"
							}
							if k < 0 || k >= n {
								return false, "out of range"
							}
							vals[x] = arr[k]
						}
					case *ssa.Store:
						ia, isEl := x.Addr.(*ssa.IndexAddr)
						if !isEl || ia.X != base {
							continue
						}
						k, ok := ls.evalInt(tb.T(ia.Index), env, 0)
						src := feeding(x.Val, 0)
						if ok && (k < 0 || k >= n) {
							return false, "out of range"
						}
						if !ok || src == nil {
							return false, "store not evaluable"
						}
						if _, have := vals[src]; !have {
							return false, "store of a value loaded later"
						}
						arr[k] = vals[src]
					}
				}
				return true, ""
			})
			if !fin && whyNot == "out of range" {
				continue // this length never gets here (a guard in front of the loop), or the code panics: not this rule's matter
			}
			if !fin {
				evaluable = false
				break
			}
			rev := true
			for k := range arr {
				if arr[k] != n-1-int64(k) {
					rev = false
				}
			}
			if rev {
				exact++
			} else if firstBad < 0 {
				firstBad = n
				badWhat = fmt.Sprint(arr)
			}
		}
		if !evaluable {
			continue
		}
		key := "swap-reversal:" + short1
		switch {
		case firstBad < 0:
			c.ok("STATE", key, hdr.Instrs[0].Pos(), "the in-place exchange loop yields the exact reversal for every length 0..8")
		case exact >= 3:
			c.bad("STATE", key, hdr.Instrs[0].Pos(), fmt.Sprintf("%s reverses a slice in place by exchanging elements from both ends; the loop's bound gives the exact reversal for %d of the lengths 0..8 but not for length %d (positions end up as %s instead of the mirror image): a pair near the centre is left alone or exchanged twice", short1, exact, firstBad, badWhat))
		}
	}
}

// addInsideGoroutine: a goroutine announces itself to a WaitGroup from the inside (wg.Add(1) as it starts)
// while the function that started it Waits on that WaitGroup: Wait can run before the goroutine has got as far
// as its Add, return, and let the starter go on (close a channel the goroutine is about to send on, return a
// result the goroutine has not written yet).
func addInsideGoroutine(c *Ctx, g *ssa.Function, short1 string) {
	eachInstr(g, func(i ssa.Instruction) {
		gi, ok := i.(*ssa.Go)
		if !ok {
			return
		}
		var body *ssa.Function
		switch v := gi.Call.Value.(type) {
		case *ssa.MakeClosure:
			body, _ = v.Fn.(*ssa.Function)
		case *ssa.Function:
			body = v
		}
		if body == nil || body.Blocks == nil {
			return
		}
		// Add in the goroutine's own entry region, on a WaitGroup that is not made in the goroutine
		var add ssa.CallInstruction
		eachInstr(body, func(j ssa.Instruction) {
			cj, ok := j.(ssa.CallInstruction)
			if !ok || calleeName(cj) != "(*sync.WaitGroup).Add" || add != nil {
				return
			}
			if _, isDefer := j.(*ssa.Defer); isDefer {
				return
			}
			recv := unwrap(cj.Common().Args[0])
			if a, isA := recv.(*ssa.Alloc); isA && a.Parent() == body {
				return
			}
			if j.Block() == body.Blocks[0] {
				add = cj
			}
		})
		if add == nil {
			return
		}
		// the starter (or the function the literal sits in) waits on a WaitGroup
		waits := false
		for f := g; f != nil; f = f.Parent() {
			eachInstr(f, func(j ssa.Instruction) {
				if cj, ok := j.(ssa.CallInstruction); ok && calleeName(cj) == "(*sync.WaitGroup).Wait" {
					waits = true
				}
			})
		}
		if !waits {
			return
		}
		// not counted by the starter as well
		counted := false
		for _, in := range gi.Block().Instrs {
			if in == ssa.Instruction(gi) {
				break
			}
			if cj, ok := in.(ssa.CallInstruction); ok && calleeName(cj) == "(*sync.WaitGroup).Add" {
				counted = true
			}
		}
		if counted {
			return
		}
		c.bad("STATE", "add-inside-goroutine:"+short1, add.Pos(), fmt.Sprintf("%s starts a goroutine that calls wg.Add itself, after it has started, and a Wait on that WaitGroup decides when the work is over: Wait can return before the goroutine has been counted, so what follows the Wait (closing the channel, returning) overtakes it", short1))
	})
}

// swappedArguments: a call hands two of the caller's parameters to a callee whose parameters carry the SAME
// two names in the opposite positions (f(…, doubleStranded, circular) for f(…, circular, doubleStranded bool)).
func swappedArguments(c *Ctx, g *ssa.Function, short1 string) {
	eachInstr(g, func(i ssa.Instruction) {
		ci, ok := i.(ssa.CallInstruction)
		if !ok {
			return
		}
		callee := ci.Common().StaticCallee()
		if callee == nil || !inModule(callee) || callee.Signature.Variadic() {
			return
		}
		args := ci.Common().Args
		if len(args) != len(callee.Params) {
			return
		}
		// f(a, b) = not f(b, a), taken when a and b stand in the wrong order: a self-call whose exchanged
		// parameters are compared with each other on the way is a deliberate exchange (an ordering made canonical)
		if callee == g {
			idx := map[*ssa.Parameter]int{}
			for k, p := range g.Params {
				idx[p] = k
			}
			tbS := newTB(g)
			tbS.NoInline = true
			atoms := pathCond(tbS, g.Blocks[0], i.Block()).atoms()
			for a := 0; a < len(args); a++ {
				pa, okA := unwrap(args[a]).(*ssa.Parameter)
				if !okA || pa.Parent() != g || idx[pa] == a {
					continue
				}
				b := idx[pa]
				if pb, okB := unwrap(args[b]).(*ssa.Parameter); !okB || idx[pb] != a {
					continue
				}
				for _, at := range atoms {
					as := at.Atom.String()
					if strings.Contains(as, fmt.Sprintf("param[%d]", a)) && strings.Contains(as, fmt.Sprintf("param[%d]", b)) {
						return
					}
				}
			}
		}
		for a := 0; a < len(args); a++ {
			pa, okA := unwrap(args[a]).(*ssa.Parameter)
			if !okA || pa.Parent() != g {
				continue
			}
			for b := a + 1; b < len(args); b++ {
				pb, okB := unwrap(args[b]).(*ssa.Parameter)
				if !okB || pb.Parent() != g || pa == pb {
					continue
				}
				if !types.Identical(pa.Type(), pb.Type()) {
					continue
				}
				if pa.Name() == callee.Params[b].Name() && pb.Name() == callee.Params[a].Name() && pa.Name() != pb.Name() && pa.Name() != "_" && pb.Name() != "_" {
					c.bad("STATE", "swapped-arguments:"+short1, i.Pos(), fmt.Sprintf("%s passes its parameters %s and %s to %s in positions %d and %d, where that function's parameters are called %s and %s: the two values of the same type are handed over crosswise", short1, pa.Name(), pb.Name(), fname(callee), a+1, b+1, callee.Params[a].Name(), callee.Params[b].Name()))
					return
				}
			}
		}
	})
}

// globalBacking: a slice cut from a package-level slice without limiting its capacity (table[:1], buffer[:0])
// is appended onto, or becomes part of what the function returns: the elements land in (or the result keeps
// pointing into) the package-level backing array, which the next call cuts from again.
func globalBacking(c *Ctx, g *ssa.Function, short1 string) {
	tb := newTB(g)
	eachInstr(g, func(i ssa.Instruction) {
		sl, ok := i.(*ssa.Slice)
		if !ok || sl.Max != nil {
			return
		}
		ld, isLd := sl.X.(*ssa.UnOp)
		if !isLd || ld.Op.String() != "*" {
			return
		}
		gl, isGl := ld.X.(*ssa.Global)
		if !isGl || gl.Pkg == nil || !strings.HasPrefix(gl.Pkg.Pkg.Path(), modPath) {
			return
		}
		if _, isSlice := sl.X.Type().Underlying().(*types.Slice); !isSlice {
			return
		}
		// forward closure of the cut slice
		seen := map[ssa.Value]bool{}
		work := []ssa.Value{sl}
		var hit ssa.Instruction
		how := ""
		for len(work) > 0 && hit == nil {
			v := work[len(work)-1]
			work = work[:len(work)-1]
			if seen[v] || v.Referrers() == nil {
				continue
			}
			seen[v] = true
			for _, r := range *v.Referrers() {
				switch x := r.(type) {
				case *ssa.Phi:
					work = append(work, x)
				case *ssa.Slice:
					if x.Max == nil {
						work = append(work, x)
					}
				case *ssa.Call:
					if calleeName(x) == "builtin:append" && len(x.Call.Args) == 2 && x.Call.Args[0] == v {
						_, constCut := sl.High.(*ssa.Const)
						if d, _ := dependsOnArgs(tb.T(x.Call.Args[1])); d {
							hit, how = x, "data computed from the arguments is appended onto it"
						} else if constCut && pathCond(tb, g.Blocks[0], x.Block()).Op != "true" {
							// a fixed-length head of the list, extended on some calls only: the append lands on the
							// list's own next element and replaces it for every later call
							hit, how = x, "on some calls an element is appended onto that fixed-length head"
						} else {
							work = append(work, x)
						}
					}
				case *ssa.Store:
					if x.Val != v {
						continue
					}
					// into a field of a local record: the record carries it
					if a, pth, isLocal := rootAlloc(x.Addr); isLocal && len(pth) > 0 && a.Referrers() != nil {
						for _, ar := range *a.Referrers() {
							if ald, isL := ar.(*ssa.UnOp); isL && ald.Op.String() == "*" && ald.X == ssa.Value(a) {
								work = append(work, ald)
							}
						}
					}
				case *ssa.Return:
					hit, how = x, "it is (part of) what the function returns"
				}
			}
		}
		if hit != nil {
			c.bad("STATE", "global-backing:"+short1, sl.Pos(), fmt.Sprintf("%s cuts a slice out of package-level %s keeping its capacity, and %s (at %s): the elements live in the package-level backing array, so the next call overwrites what this one produced (and two overlapping calls write the same memory)", short1, gl.Name(), how, c.W.pos(hit.Pos())))
		}
	})
}

// writesFromStart: function h (or a module function it hands the parameter to) re-slices parameter k from its
// start and appends onto it: whoever shares that parameter's memory is written from offset 0.
func writesFromStart(h *ssa.Function, k int, depth int) bool {
	if h == nil || h.Blocks == nil || k >= len(h.Params) || depth > 2 {
		return false
	}
	p := h.Params[k]
	derived := map[ssa.Value]bool{p: true}
	changed := true
	for changed {
		changed = false
		eachInstr(h, func(i ssa.Instruction) {
			switch x := i.(type) {
			case *ssa.Slice:
				if derived[x.X] && !derived[x] && x.Max == nil {
					if x.Low == nil {
						derived[x] = true
						changed = true
					} else if k0, isC := x.Low.(*ssa.Const); isC && k0.Value != nil && k0.Value.ExactString() == "0" {
						derived[x] = true
						changed = true
					}
				}
			case *ssa.Phi:
				if !derived[x] {
					for _, e := range x.Edges {
						if derived[e] {
							derived[x] = true
							changed = true
						}
					}
				}
			}
		})
	}
	found := false
	eachInstr(h, func(i ssa.Instruction) {
		ci, ok := i.(ssa.CallInstruction)
		if !ok {
			return
		}
		if cl, isCall := i.(*ssa.Call); isCall && calleeName(cl) == "builtin:append" && len(cl.Call.Args) == 2 {
			if a0 := cl.Call.Args[0]; derived[a0] && a0 != ssa.Value(p) {
				found = true
			}
			return
		}
		if callee := ci.Common().StaticCallee(); callee != nil && inModule(callee) {
			for j, a := range ci.Common().Args {
				if derived[a] && writesFromStart(callee, j, depth+1) {
					found = true
				}
			}
		}
	})
	return found
}

// goSharedScratch: one buffer is handed to several goroutines (started in a loop, or by a worker that passes
// its own parameter on to the workers it starts) and each of them writes it from its start.
func goSharedScratch(c *Ctx, g *ssa.Function, short1 string) {
	eachInstr(g, func(i ssa.Instruction) {
		gi, ok := i.(*ssa.Go)
		if !ok {
			return
		}
		h := gi.Call.StaticCallee()
		if h == nil || !inModule(h) {
			return
		}
		for k, a := range gi.Call.Args {
			if _, isSlice := a.Type().Underlying().(*types.Slice); !isSlice {
				continue
			}
			v := unwrap(a)
			several := enclosingLoopHeader(gi.Block()) != nil
			if p, isP := v.(*ssa.Parameter); isP && h == g && p == g.Params[k] {
				several = true // the worker hands its own buffer to the workers it starts
			}
			if !several {
				continue
			}
			if _, isMk := v.(*ssa.MakeSlice); !isMk {
				if _, isP := v.(*ssa.Parameter); !isP {
					continue
				}
			}
			if writesFromStart(h, k, 0) {
				c.bad("STATE", "go-shared-scratch:"+short1, gi.Pos(), fmt.Sprintf("%s hands the same buffer to every goroutine it starts (%s, argument %d), and each of them re-slices it from the start and appends: goroutines that run side by side build their data in the same bytes", short1, fname(h), k+1))
				return
			}
		}
	})
}

// poolArrayMarks: a pooled table (pointer to an array) in which the function only ever SETS marks (stores one
// non-zero constant at data-dependent positions) and then reads positions, without ever clearing a mark or
// the whole table: the marks of an earlier use (for another alphabet, another key set) are still there.
func poolArrayMarks(c *Ctx, g *ssa.Function, short1 string) {
	for _, objs := range pooledObjects(g) {
		pt, isPtr := objs[0].Type().Underlying().(*types.Pointer)
		if !isPtr {
			continue
		}
		if _, isArr := pt.Elem().Underlying().(*types.Array); !isArr {
			continue
		}
		marks, reads, clears := 0, 0, 0
		var firstMark ssa.Instruction
		other := false
		for _, o := range objs {
			if o.Referrers() == nil {
				continue
			}
			for _, r := range *o.Referrers() {
				switch x := r.(type) {
				case *ssa.IndexAddr:
					if x.Referrers() == nil {
						continue
					}
					for _, rr := range *x.Referrers() {
						switch y := rr.(type) {
						case *ssa.Store:
							k, isC := y.Val.(*ssa.Const)
							switch {
							case isC && k.Value != nil && (k.Value.ExactString() == "false" || k.Value.ExactString() == "0"):
								clears++
							case isC && k.Value != nil:
								if _, idxConst := x.Index.(*ssa.Const); !idxConst {
									marks++
									if firstMark == nil {
										firstMark = y
									}
								}
							default:
								other = true // computed values: a table that is filled, not marked
							}
						case *ssa.UnOp:
							reads++
						}
					}
				case *ssa.Store:
					if x.Addr == o {
						clears++ // *table = [N]T{}
					}
				case *ssa.UnOp, *ssa.MakeInterface, *ssa.DebugRef:
				case ssa.CallInstruction:
					if n := calleeName(x); n != "(*sync.Pool).Put" {
						other = true // handed on (a clearing helper, perhaps)
					}
				default:
					other = true
				}
			}
		}
		if marks > 0 && reads > 0 && clears == 0 && !other {
			c.bad("STATE", "pool-content:"+short1, firstMark.Pos(), fmt.Sprintf("%s marks positions in a pooled table and then looks positions up, but never clears a mark or the table: the marks left by an earlier use (another alphabet, another set) are still set, so the answer depends on what was asked before", short1))
		}
	}
}

// atomicPair: what one call remembers is kept in two separate package-level atomic values (the key in one, the
// answer in the other): each is updated atomically, the pair is not, so a reader can combine one call's key
// with another call's answer.
func atomicPair(c *Ctx, g *ssa.Function, short1 string) {
	tb := newTB(g)
	stored, loaded := map[*ssa.Global]ssa.Instruction{}, map[*ssa.Global]bool{}
	eachInstr(g, func(i ssa.Instruction) {
		ci, ok := i.(ssa.CallInstruction)
		if !ok || len(ci.Common().Args) == 0 {
			return
		}
		n := calleeName(ci)
		if !strings.HasPrefix(n, "(*sync/atomic.") {
			return
		}
		gl := globalRoot(ci.Common().Args[0])
		if gl == nil {
			if x, isG := ci.Common().Args[0].(*ssa.Global); isG {
				gl = x
			}
		}
		if gl == nil {
			return
		}
		switch {
		case strings.HasSuffix(n, ").Store") || strings.HasSuffix(n, ").Swap"):
			if len(ci.Common().Args) >= 2 {
				if d, _ := dependsOnArgs(tb.T(unwrapIface(ci.Common().Args[1]))); d {
					stored[gl] = i
				}
			}
		case strings.HasSuffix(n, ").Load"):
			loaded[gl] = true
		}
	})
	both := 0
	var at ssa.Instruction
	var names []string
	for gl, in := range stored {
		if loaded[gl] {
			both++
			names = append(names, gl.Name())
			if at == nil || in.Pos() < at.Pos() {
				at = in
			}
		}
	}
	sort.Strings(names)
	if both >= 2 {
		c.bad("STATE", "atomic-pair:"+short1, at.Pos(), fmt.Sprintf("%s keeps what it remembers of a call in %d separate package-level atomic values (%s), read and written one after the other: each is atomic, the combination is not, so overlapping calls can pair one call's key with another call's value", short1, both, strings.Join(names, ", ")))
	}
}

// predicateWritesArgument: a function that only answers yes or no overwrites the elements of the slice it
// was asked about, and the caller goes on using that slice.
func predicateWritesArgument(c *Ctx, g *ssa.Function, short1 string) {
	eachInstr(g, func(i ssa.Instruction) {
		cl, ok := i.(*ssa.Call)
		if !ok {
			return
		}
		h := cl.Call.StaticCallee()
		if h == nil || !inModule(h) || h.Blocks == nil || h == g {
			return
		}
		res := h.Signature.Results()
		if res.Len() != 1 || tname(res.At(0).Type()) != "bool" {
			return
		}
		for k, a := range cl.Call.Args {
			if _, isSlice := a.Type().Underlying().(*types.Slice); !isSlice || k >= len(h.Params) {
				continue
			}
			// h stores into elements of its k-th parameter
			writes := false
			p := h.Params[k]
			if p.Referrers() != nil {
				for _, r := range *p.Referrers() {
					if ia, isIA := r.(*ssa.IndexAddr); isIA && ia.X == ssa.Value(p) && ia.Referrers() != nil {
						for _, rr := range *ia.Referrers() {
							if st, isSt := rr.(*ssa.Store); isSt && st.Addr == ssa.Value(ia) {
								writes = true
							}
						}
					}
				}
			}
			if !writes || a.Referrers() == nil {
				continue
			}
			var later ssa.Instruction
			for _, r := range *a.Referrers() {
				if _, isDbg := r.(*ssa.DebugRef); isDbg || r == ssa.Instruction(cl) {
					continue
				}
				if domInstr(cl, r) && (later == nil || r.Pos() < later.Pos()) {
					later = r
				}
			}
			if later != nil {
				c.bad("STATE", "predicate-writes-argument:"+short1, cl.Pos(), fmt.Sprintf("%s asks %s a yes/no question about a slice and goes on using the slice (at %s), but %s overwrites the slice's elements while it works: what is read afterwards is no longer what was passed in", short1, fname(h), c.W.pos(later.Pos()), fname(h)))
				return
			}
		}
	})
}

// appendFork: two appends onto the SAME cut of a longer list (head := list[:k]; a := append(head, x);
// b := append(head, y)): the cut has spare capacity, so both appends write position k of the one backing
// array and the later one replaces what the earlier one added; a and b (and the list) now share that element.
func appendFork(c *Ctx, g *ssa.Function, short1 string) {
	byBase := map[ssa.Value][]*ssa.Call{}
	eachInstr(g, func(i ssa.Instruction) {
		ap, ok := i.(*ssa.Call)
		if !ok || calleeName(ap) != "builtin:append" || len(ap.Call.Args) != 2 {
			return
		}
		if ap.Referrers() == nil || len(*ap.Referrers()) == 0 {
			return
		}
		byBase[ap.Call.Args[0]] = append(byBase[ap.Call.Args[0]], ap)
	})
	for base, aps := range byBase {
		if len(aps) < 2 {
			continue
		}
		sl, ok := base.(*ssa.Slice)
		if !ok || sl.Max != nil || sl.High == nil {
			continue
		}
		hi, isC := sl.High.(*ssa.Const)
		if !isC || hi.Value == nil {
			continue
		}
		// the list that is cut is longer than the cut: a literal of known length
		var n int64 = -1
		switch x := sl.X.(type) {
		case *ssa.Slice:
			if a, isA := x.X.(*ssa.Alloc); isA && x.High == nil {
				if at, isArr := deref(a.Type()).Underlying().(*types.Array); isArr {
					n = at.Len()
				}
			}
		case *ssa.Alloc:
			if at, isArr := deref(x.Type()).Underlying().(*types.Array); isArr {
				n = at.Len()
			}
		}
		if n < 0 || hi.Int64() >= n {
			continue
		}
		// one append must not be on a path that excludes the other (if/else alternatives are fine)
		a, b := aps[0], aps[1]
		if !(domInstr(a, b) || domInstr(b, a)) {
			continue
		}
		first := a
		if b.Pos() < a.Pos() {
			first = b
		}
		c.bad("STATE", "append-fork:"+short1, first.Pos(), fmt.Sprintf("%s appends twice onto the same %d-element cut of a %d-element list: the cut has room to spare, so both appends write the list's element %d and the later one replaces what the earlier one added (the two results, and the list, share it)", short1, hi.Int64(), n, hi.Int64()))
	}
}

// readLinePrefixIgnored: (*bufio.Reader).ReadLine hands a line that does not fit its buffer over in pieces and
// says so in its second result; code that never looks at that result takes every piece for a line of its own.
func readLinePrefixIgnored(c *Ctx, g *ssa.Function, short1 string) {
	eachInstr(g, func(i ssa.Instruction) {
		cl, ok := i.(*ssa.Call)
		if !ok || calleeName(cl) != "(*bufio.Reader).ReadLine" {
			return
		}
		used := false
		if cl.Referrers() != nil {
			for _, r := range *cl.Referrers() {
				if ex, isEx := r.(*ssa.Extract); isEx && ex.Index == 1 && ex.Referrers() != nil {
					for _, rr := range *ex.Referrers() {
						if _, isDbg := rr.(*ssa.DebugRef); !isDbg {
							used = true
						}
					}
				}
			}
		}
		if !used {
			c.bad("STATE", "readline-prefix:"+short1, cl.Pos(), fmt.Sprintf("%s reads lines with (*bufio.Reader).ReadLine and never looks at its isPrefix result: a line longer than the reader's buffer (4096 bytes by default) arrives in several pieces, and every piece after the first is taken for a new line", short1))
		}
	})
}

// flushWithoutReset: inside a loop a buffer's content is written out (w.Write(buf.Bytes())) while the loop
// keeps appending to the same buffer, and the buffer is never emptied: everything written so far is written
// again with the next flush.
func flushWithoutReset(c *Ctx, g *ssa.Function, short1 string) {
	eachInstr(g, func(i ssa.Instruction) {
		a, ok := i.(*ssa.Alloc)
		if !ok || a.Referrers() == nil {
			return
		}
		tn := tname(deref(a.Type()))
		if tn != "bytes.Buffer" && tn != "strings.Builder" {
			return
		}
		var appends, snapshots []ssa.Instruction
		resets := 0
		other := false
		for _, r := range *a.Referrers() {
			ci, isCall := r.(ssa.CallInstruction)
			if !isCall {
				if _, isDbg := r.(*ssa.DebugRef); !isDbg {
					if _, isSt := r.(*ssa.Store); !isSt {
						other = true
					}
				}
				continue
			}
			n := calleeName(ci)
			switch {
			case strings.HasSuffix(n, ").Reset") || strings.HasSuffix(n, ").Truncate") || strings.HasSuffix(n, ").WriteTo") || strings.HasSuffix(n, ").Next") || strings.HasSuffix(n, ").Read"):
				resets++
			case strings.Contains(n, ").Write"):
				appends = append(appends, r)
			case strings.HasSuffix(n, ").Bytes") || strings.HasSuffix(n, ").String"):
				snapshots = append(snapshots, r)
			case strings.HasSuffix(n, ").Len") || strings.HasSuffix(n, ").Grow") || strings.HasSuffix(n, ").Cap"):
			default:
				other = true
			}
		}
		if resets > 0 || other || len(appends) == 0 {
			return
		}
		for _, sn := range snapshots {
			h := enclosingLoopHeader(sn.Block())
			if h == nil {
				continue
			}
			loop := naturalLoopOf(h)
			appendedInLoop := false
			for _, ap := range appends {
				if loop[ap.Block()] {
					appendedInLoop = true
				}
			}
			if !appendedInLoop {
				continue
			}
			// the snapshot goes to a writer
			sv, isVal := sn.(ssa.Value)
			if !isVal || sv.Referrers() == nil {
				continue
			}
			for _, r := range *sv.Referrers() {
				ci, isCall := r.(ssa.CallInstruction)
				if !isCall || !loop[r.Block()] {
					continue
				}
				n := calleeName(ci)
				if strings.Contains(n, ").Write") || strings.HasPrefix(n, "invoke:") && strings.Contains(n, "Write") || n == "io.WriteString" || strings.HasPrefix(n, "fmt.Fprint") {
					c.bad("STATE", "flush-without-reset:"+short1, r.Pos(), fmt.Sprintf("%s writes the buffer's content out inside a loop that goes on appending to the same buffer, and never empties it: everything written by one flush is written again by the next", short1))
					return
				}
			}
		}
	})
}

// goSharedMap: one map is handed to several goroutines (started in a loop, or by a worker that passes its own
// parameter on) and the goroutine's function updates it without a lock.
func goSharedMap(c *Ctx, g *ssa.Function, short1 string) {
	eachInstr(g, func(i ssa.Instruction) {
		gi, ok := i.(*ssa.Go)
		if !ok {
			return
		}
		h := gi.Call.StaticCallee()
		if h == nil || !inModule(h) || h.Blocks == nil {
			return
		}
		for k, a := range gi.Call.Args {
			if _, isMap := a.Type().Underlying().(*types.Map); !isMap || k >= len(h.Params) {
				continue
			}
			v := unwrap(a)
			several := false
			if p, isP := v.(*ssa.Parameter); isP && h == g && p == g.Params[k] {
				several = true
			}
			if _, isMk := v.(*ssa.MakeMap); isMk && enclosingLoopHeader(gi.Block()) != nil {
				if mk := v.(*ssa.MakeMap); !naturalLoopOf(enclosingLoopHeader(gi.Block()))[mk.Block()] {
					several = true // made once outside the loop that starts the goroutines
				}
			}
			if !several {
				continue
			}
			if guardedBy(h) != "" {
				continue
			}
			var upd *ssa.MapUpdate
			eachInstr(h, func(j ssa.Instruction) {
				if mu, isMU := j.(*ssa.MapUpdate); isMU && unwrap(mu.Map) == ssa.Value(h.Params[k]) && upd == nil {
					upd = mu
				}
			})
			if upd != nil {
				c.bad("STATE", "go-shared-write:"+short1+"."+h.Params[k].Name(), upd.Pos(), fmt.Sprintf("%s starts several goroutines on %s with the same map (%s), and that function updates the map without a lock: concurrent map writes, and each goroutine's decisions depend on what its siblings have entered so far", short1, fname(h), h.Params[k].Name()))
				return
			}
		}
	})
}

// decodeIntoShared: a decoder is pointed at a variable that was first filled with a value sharing memory with
// package-level state (a default table handed out by value: the slice headers are copies, the arrays are
// not). encoding/json and encoding/xml reuse the slices they find, so decoding writes the package-level
// arrays and every later user of that default sees the decoded data.
func decodeIntoShared(c *Ctx, g *ssa.Function, short1 string) {
	var ro map[*ssa.Function]origin
	eachInstr(g, func(i ssa.Instruction) {
		ci, ok := i.(ssa.CallInstruction)
		if !ok {
			return
		}
		n := calleeName(ci)
		arg := -1
		switch n {
		case "encoding/json.Unmarshal", "encoding/xml.Unmarshal":
			arg = 1
		case "(*encoding/json.Decoder).Decode", "(*encoding/xml.Decoder).Decode":
			arg = 1
		}
		if arg < 0 || arg >= len(ci.Common().Args) {
			return
		}
		a, isA := unwrap(ci.Common().Args[arg]).(*ssa.Alloc)
		if !isA || a.Referrers() == nil {
			return
		}
		if ro == nil {
			var fs []*ssa.Function
			for _, f := range funcsSorted(reachable(g)) {
				if inModule(f) && f.Blocks != nil {
					fs = append(fs, f)
				}
			}
			ro = returnOrigins(fs)
		}
		oa := newOriginAnalysis(g, func(h *ssa.Function) origin { return ro[h] })
		for _, r := range *a.Referrers() {
			st, isSt := r.(*ssa.Store)
			if !isSt || st.Addr != ssa.Value(a) || !domInstr(st, ci.(ssa.Instruction)) {
				continue
			}
			if !hasRefs(st.Val.Type()) {
				continue
			}
			if o := oa.of(st.Val); o&oGlobal != 0 {
				c.bad("STATE", "decode-into-shared:"+short1, ci.Pos(), fmt.Sprintf("%s decodes into a variable that was first set to a value sharing its slices with package-level state (at %s): the decoder reuses the arrays it finds, so the decoded data is written into the package-level table and stays there for every later caller", short1, c.W.pos(st.Pos())))
				return
			}
		}
	})
}

// memoKeys: the memo-key rule for one function (see stateRules). With requireLookup the store only counts as
// a memo when the same function also looks the package-level map up (a registration that only stores is not
// a memo). Returns the number of remembered values examined.
func memoKeys(c *Ctx, g *ssa.Function, tb *TermBuilder, short1 string, requireLookup bool) int {
	nMemo := 0
	eachInstr(g, func(i ssa.Instruction) {
		var k, v ssa.Value
		var what string
		var memoGlobal *ssa.Global
		switch x := i.(type) {
		case *ssa.MapUpdate:
			if gl := globalRoot(x.Map); gl != nil {
				k, v, what, memoGlobal = x.Key, x.Value, gl.Name(), gl
			}
		case *ssa.Call:
			n := calleeName(x)
			if n == "(*sync.Map).Store" || n == "(*sync.Map).LoadOrStore" || n == "(*sync.Map).Swap" {
				as := x.Call.Args
				if len(as) == 3 {
					if gl := globalRoot(as[0]); gl != nil {
						k, v, what, memoGlobal = as[1], as[2], gl.Name(), gl
					}
				}
			}
		}
		if k == nil {
			return
		}
		if requireLookup {
			looked := false
			eachInstr(g, func(j ssa.Instruction) {
				// ... and hands back what it finds there (a duplicate test that only reads the ok flag is not a memo)
				var found ssa.Value
				switch y := j.(type) {
				case *ssa.Lookup:
					if globalRoot(y.X) == memoGlobal {
						found = y
					}
				case *ssa.Call:
					if n := calleeName(y); (n == "(*sync.Map).Load" || n == "(*sync.Map).LoadOrStore") && len(y.Call.Args) > 0 && globalRoot(y.Call.Args[0]) == memoGlobal {
						found = y
					}
				}
				if found == nil {
					return
				}
				seenF := map[ssa.Value]bool{}
				var toReturn func(v ssa.Value, d int) bool
				toReturn = func(v ssa.Value, d int) bool {
					if seenF[v] || v.Referrers() == nil || d > 8 {
						return false
					}
					seenF[v] = true
					for _, r := range *v.Referrers() {
						switch z := r.(type) {
						case *ssa.Return:
							return true
						case *ssa.Extract:
							if z.Index == 0 && toReturn(z, d+1) {
								return true
							}
						case *ssa.TypeAssert, *ssa.Phi, *ssa.Field, *ssa.ChangeType, *ssa.MakeInterface, *ssa.UnOp:
							if toReturn(z.(ssa.Value), d+1) {
								return true
							}
						case *ssa.Store:
							// kept in a local that is returned later
							if a, isA := z.Addr.(*ssa.Alloc); isA && z.Val == v && toReturn(a, d+1) {
								return true
							}
						}
					}
					return false
				}
				if toReturn(found, 0) {
					looked = true
				}
			})
			if !looked {
				return
			}
		}
		nMemo++
		key := "memo-key:" + short1 + "->" + what
		kt, vt := tb.T(unwrapIface(k)), tb.T(unwrapIface(v))
		if os.Getenv("DEBUG_STATE") != "" {
			fmt.Println("DEBUG memo", kt.String(), "=>", vt.String())
		}
		kl, _ := argLeaves(kt)
		vl, vOpaque := argLeaves(vt)
		// a list that enters the key only through len(list) contributes its length, not its content: the key
		// does not tell two lists of the same length apart
		{
			var strip func(x *Term, d int) *Term
			strip = func(x *Term, d int) *Term {
				if x == nil || d > 40 {
					return x
				}
				if x.Op == "call" && (x.Name == "builtin:len" || x.Name == "builtin:cap") {
					return &Term{Op: "const", Name: "0"}
				}
				cp := &Term{Op: x.Op, Name: x.Name, V: x.V, Cyc: x.Cyc}
				for _, a := range x.Args {
					cp.Args = append(cp.Args, strip(a, d+1))
				}
				return cp
			}
			full, _ := argLeaves(strip(kt, 0))
			inFull := map[string]bool{}
			for _, l := range full {
				inFull[l] = true
			}
			var kept []string
			for _, l := range kl {
				if inFull[l] {
					kept = append(kept, l)
				}
			}
			// a key made of lengths alone is left to the shapes below
			if len(kept) > 0 {
				kl = kept
			}
		}
		// a container built in this function: it depends on everything stored into it
		for _, extra := range containerContent(g, unwrapIface(v)) {
			l, o := argLeaves(tb.T(extra))
			vl = append(vl, l...)
			vOpaque = vOpaque || o
		}
		// a function literal without parameters of its own (a deferred "remember the results"): key and
		// value are variables of the enclosing function; read them there, in its parameter names
		pg := g
		if g.Parent() != nil && len(g.Params) == 0 {
			if fk, okK := freeLeaves(g, unwrapIface(k)); okK {
				if fv, okV := freeLeaves(g, unwrapIface(v)); okV {
					kl, vl, vOpaque, pg = fk, fv, false, g.Parent()
				}
			}
		}
		// what is remembered is also a function of the conditions under which it is remembered: a fact stored only
		// after checks that depend on other arguments ("these letters are valid" - for the type that was asked) is
		// computed from those arguments too
		if pg == g {
			for _, at := range pathCond(tb, g.Blocks[0], i.Block()).atoms() {
				l, _ := argLeaves(at.Atom)
				vl = append(vl, l...)
			}
		}
		// a parameter the function writes THROUGH (a receiver it fills, an out-parameter) is an output: what
		// is read back from it is what this call put there, not a second input the key would have to cover
		outParam := map[string]bool{}
		for pi, par := range pg.Params {
			if _, isPtr := par.Type().Underlying().(*types.Pointer); !isPtr || par.Referrers() == nil {
				continue
			}
			for _, r := range *par.Referrers() {
				switch x := r.(type) {
				case *ssa.Store:
					if x.Addr == ssa.Value(par) {
						outParam[fmt.Sprintf("p%d", pi)] = true
					}
				case *ssa.FieldAddr:
					if x.Referrers() != nil {
						for _, rr := range *x.Referrers() {
							if st, isSt := rr.(*ssa.Store); isSt && st.Addr == ssa.Value(x) {
								outParam[fmt.Sprintf("p%d", pi)] = true
							}
						}
					}
				}
			}
		}
		var missing []string
		seen := map[string]bool{}
		for _, l := range vl {
			root := l
			if k := strings.IndexAny(l, ".["); k > 0 {
				root = l[:k]
			}
			if outParam[root] {
				continue
			}
			covered := false
			for _, kk := range kl {
				if l == kk || strings.HasPrefix(l, kk+".") || strings.HasPrefix(l, kk+"[]") {
					covered = true
				}
			}
			if !covered && !seen[l] {
				seen[l] = true
				missing = append(missing, l)
			}
		}
		sort.Strings(missing)
		// a value read from the file system is not a function of the key at all: the file can change
		readsFile := ""
		vt.walk(func(x *Term) {
			if x.Op == "call" {
				switch x.Name {
				case "os.ReadFile", "io/ioutil.ReadFile", "os.Open", "os.OpenFile":
					readsFile = x.Name
				}
			}
		})
		// ... also when the value went through a decoder that hides its input: the same function opens
		// or reads the file named by (a part of) the key
		if readsFile == "" && len(kl) > 0 {
			eachInstr(g, func(j ssa.Instruction) {
				cj, ok := j.(ssa.CallInstruction)
				if !ok {
					return
				}
				switch n := calleeName(cj); n {
				case "os.ReadFile", "io/ioutil.ReadFile", "os.Open", "os.OpenFile":
					if len(cj.Common().Args) == 0 {
						return
					}
					pl, _ := argLeaves(tb.T(cj.Common().Args[0]))
					for _, a := range pl {
						for _, b := range kl {
							if a == b {
								readsFile = n
							}
						}
					}
				}
			})
		}
		switch {
		case readsFile != "":
			c.bad("STATE", key, i.Pos(), fmt.Sprintf("%s remembers in package-level %s what it read through %s: the file is not an argument, so a later call for the same key returns the remembered content although the file has changed (and every caller shares the remembered value)", short1, what, readsFile))
		case len(missing) > 0 && len(kl) > 0:
			c.bad("STATE", key, i.Pos(), fmt.Sprintf("%s remembers in package-level %s, under a key computed from %s, a value computed from %s: a later call whose arguments agree in the key but differ there is answered with the earlier call's value", short1, what, strings.Join(pretty(pg, kl), ", "), strings.Join(pretty(pg, missing), ", ")))
		case len(missing) > 0:
			c.undecided("STATE", key, i.Pos(), fmt.Sprintf("%s remembers a value computed from %s in package-level %s; what the key is computed from is not visible", short1, strings.Join(pretty(pg, missing), ", "), what))
		case vOpaque:
			c.undecided("STATE", key, i.Pos(), fmt.Sprintf("%s remembers a value in package-level %s; not everything the value is computed from is visible", short1, what))
		default:
			c.ok("STATE", key, i.Pos(), fmt.Sprintf("everything the remembered value is computed from (%s) is part of the key (%s)", strings.Join(pretty(pg, vl), ", "), strings.Join(pretty(pg, kl), ", ")))
		}
	})
	return nMemo
}

// scannerLimit: a bufio.Scanner that reads the input line by line with the default 64 KiB token limit (no
// Buffer call, default splitting): the first longer line ends the scan without an error and the rest of the
// input is dropped. (C13 and C16 have this rule of their own, SCANCAP.)
func scannerLimit(c *Ctx, g *ssa.Function, short1 string) {
	if c.Prop == "C13" || c.Prop == "C16" {
		return
	}
	eachInstr(g, func(i ssa.Instruction) {
		mk, ok := i.(*ssa.Call)
		if !ok || calleeName(mk) != "bufio.NewScanner" || mk.Referrers() == nil {
			return
		}
		buffered, split, scans, other := false, false, 0, false
		for _, r := range *mk.Referrers() {
			ci, isCall := r.(ssa.CallInstruction)
			if !isCall {
				if _, isDbg := r.(*ssa.DebugRef); !isDbg {
					other = true // kept in a record, handed on: configured elsewhere perhaps
				}
				continue
			}
			switch calleeName(ci) {
			case "(*bufio.Scanner).Buffer":
				buffered = true
			case "(*bufio.Scanner).Split":
				split = true
			case "(*bufio.Scanner).Scan":
				scans++
			case "(*bufio.Scanner).Text", "(*bufio.Scanner).Bytes", "(*bufio.Scanner).Err":
			default:
				other = true
			}
		}
		if buffered || split || other || scans == 0 {
			return
		}
		c.bad("STATE", "scanner-limit:"+short1, mk.Pos(), fmt.Sprintf("%s reads its input line by line through a bufio.Scanner with the default 64 KiB token limit: the first line longer than that (a long sequence or base string on one line) ends the scan without an error, and everything from there on is dropped", short1))
	})
}

// openWithoutTruncate: a file is opened for writing with os.OpenFile, created if missing, but neither truncated
// nor opened for appending, and then written from the start: when the new content is shorter than what the
// file held, the old tail stays behind it and is read back as part of the data.
func openWithoutTruncate(c *Ctx, g *ssa.Function, short1 string) {
	eachInstr(g, func(i ssa.Instruction) {
		cl, ok := i.(*ssa.Call)
		if !ok || calleeName(cl) != "os.OpenFile" || len(cl.Call.Args) != 3 {
			return
		}
		fl, isC := cl.Call.Args[1].(*ssa.Const)
		if !isC || fl.Value == nil {
			return
		}
		v, exact := constant.Int64Val(fl.Value)
		if !exact {
			return
		}
		flag := func(name string, dflt int64) int64 {
			if op := c.W.Prog.ImportedPackage("os"); op != nil {
				if nc, ok := op.Members[name].(*ssa.NamedConst); ok && nc.Value != nil && nc.Value.Value != nil {
					if x, ok := constant.Int64Val(nc.Value.Value); ok {
						return x
					}
				}
			}
			return dflt
		}
		wr := flag("O_WRONLY", 1) | flag("O_RDWR", 2)
		if v&wr == 0 || v&flag("O_CREATE", 0x40) == 0 || v&flag("O_TRUNC", 0x200) != 0 || v&flag("O_APPEND", 0x400) != 0 {
			return
		}
		// explicitly truncated afterwards?
		truncated := false
		eachInstr(g, func(j ssa.Instruction) {
			if cj, ok := j.(ssa.CallInstruction); ok {
				if n := calleeName(cj); n == "(*os.File).Truncate" || n == "os.Truncate" {
					truncated = true
				}
			}
		})
		if truncated {
			return
		}
		c.bad("STATE", "open-without-truncate:"+short1, cl.Pos(), fmt.Sprintf("%s opens its output with os.OpenFile flags %#x: created if missing, written from the start, but not truncated: when the file already holds a longer document, its old tail stays behind the new one and is read back with it", short1, v))
	})
}

// memoAlias: on a hit the function hands its caller the very list (or map) it keeps in a package-level memo:
// every caller that gets it shares it with all the others and with the memo, so one caller's edit (sorting the
// variants, filtering them in place) changes what later calls return.
// memoResultFate says what becomes of the container a memo function hands out. An exported function hands it to
// the library's user ("user"). For an unexported one every call site in the module is read: "written" when a
// caller edits the container it was given (stores an element, appends, deletes, sorts), "read" when every caller
// only looks things up in it, ranges over it or asks for its length - then sharing one copy is invisible -, and
// "onward" when a caller passes it on (returns it, stores it, hands it to another call) or the function is
// used as a value, so that where it ends up is not read here.
func memoResultFate(c *Ctx, g *ssa.Function) (string, token.Pos) {
	exported := g.Object() != nil && g.Object().Exported()
	if exported && g.Signature.Recv() != nil {
		rt := g.Signature.Recv().Type()
		if pt, isP := rt.(*types.Pointer); isP {
			rt = pt.Elem()
		}
		if nt, isN := rt.(*types.Named); isN && !nt.Obj().Exported() {
			exported = false
		}
	}
	if exported || g.Parent() != nil {
		return "user", token.NoPos
	}
	fate, at := "", token.NoPos
	set := func(f string, p token.Pos) {
		rank := map[string]int{"": 0, "read": 1, "onward": 2, "written": 3}
		if rank[f] > rank[fate] {
			fate, at = f, p
		}
	}
	var follow func(v ssa.Value, d int)
	seen := map[ssa.Value]bool{}
	follow = func(v ssa.Value, d int) {
		if seen[v] || v.Referrers() == nil {
			return
		}
		seen[v] = true
		if d > 8 {
			set("onward", v.Pos())
			return
		}
		for _, r := range *v.Referrers() {
			switch z := r.(type) {
			case *ssa.DebugRef:
			case *ssa.Lookup:
				if z.X == v {
					set("read", z.Pos())
				} else {
					set("onward", z.Pos())
				}
			case *ssa.Range:
				set("read", z.Pos())
			case *ssa.Index:
				set("read", z.Pos())
			case *ssa.Extract, *ssa.Phi, *ssa.ChangeType:
				follow(z.(ssa.Value), d+1)
			case *ssa.MapUpdate:
				if z.Map == v {
					set("written", z.Pos())
				} else {
					set("onward", z.Pos())
				}
			case *ssa.IndexAddr:
				if z.X != v || z.Referrers() == nil {
					set("onward", z.Pos())
					break
				}
				for _, rr := range *z.Referrers() {
					switch y := rr.(type) {
					case *ssa.UnOp, *ssa.DebugRef:
						set("read", z.Pos())
					case *ssa.Store:
						if y.Addr == ssa.Value(z) {
							set("written", y.Pos())
						} else {
							set("onward", y.Pos())
						}
					default:
						set("onward", z.Pos())
					}
				}
			case *ssa.Call:
				if b, isB := z.Call.Value.(*ssa.Builtin); isB {
					switch b.Name() {
					case "len", "cap":
						set("read", z.Pos())
					case "delete", "clear":
						set("written", z.Pos())
					case "append", "copy":
						if len(z.Call.Args) > 0 && z.Call.Args[0] == v {
							set("written", z.Pos())
						} else {
							set("read", z.Pos())
						}
					default:
						set("onward", z.Pos())
					}
					break
				}
				if n := calleeName(z); strings.HasPrefix(n, "sort.") || strings.HasPrefix(n, "slices.Sort") || n == "slices.Reverse" || n == "math/rand.Shuffle" {
					set("written", z.Pos())
					break
				}
				set("onward", z.Pos())
			default:
				set("onward", r.Pos())
			}
		}
	}
	calls := 0
	for _, f := range c.W.moduleFuncs() {
		eachInstr(f, func(i ssa.Instruction) {
			if ci, isCall := i.(ssa.CallInstruction); isCall && ci.Common().StaticCallee() == g {
				calls++
				if v, isV := i.(ssa.Value); isV {
					follow(v, 0)
				} else {
					set("onward", i.Pos()) // go / defer: nothing is received
				}
				return
			}
			for _, op := range i.Operands(nil) {
				if op != nil && *op == ssa.Value(g) {
					if ci, isCall := i.(ssa.CallInstruction); !isCall || ci.Common().Value != ssa.Value(g) {
						set("onward", i.Pos())
					}
				}
			}
		})
	}
	if calls == 0 && fate == "" {
		return "onward", g.Pos()
	}
	if fate == "" {
		fate = "read"
	}
	return fate, at
}

func memoAlias(c *Ctx, g *ssa.Function, short1 string) {
	report := func(construct string, pos token.Pos, why string) {
		fate, at := memoResultFate(c, g)
		switch fate {
		case "user":
			c.bad("STATE", construct, pos, why)
		case "written":
			c.bad("STATE", construct, pos, why+"; the caller at "+c.W.pos(at)+" edits what it was given")
		case "read":
			c.ok("STATE", construct, pos, short1+" hands out the container it remembers, it is not exported, and every call site in the module only looks things up in the result, ranges over it or takes its length: sharing one copy cannot be observed")
		default:
			c.undecided("STATE", construct, pos, short1+" hands out the container it remembers and is not exported; the caller at "+c.W.pos(at)+" passes the result on, so whether anyone edits it is not read here")
		}
	}
	mutableContainer := func(t types.Type) bool {
		switch t.Underlying().(type) {
		case *types.Slice, *types.Map:
			return true
		}
		return false
	}
	// the same function also stores into that memo (otherwise it is a read-only table)
	storesInto := map[*ssa.Global]bool{}
	eachInstr(g, func(i ssa.Instruction) {
		switch x := i.(type) {
		case *ssa.MapUpdate:
			if gl := globalRoot(x.Map); gl != nil {
				storesInto[gl] = true
			}
		case *ssa.Call:
			if n := calleeName(x); (n == "(*sync.Map).Store" || n == "(*sync.Map).LoadOrStore") && len(x.Call.Args) > 0 {
				if gl := globalRoot(x.Call.Args[0]); gl != nil {
					storesInto[gl] = true
				}
			}
		}
	})
	if len(storesInto) == 0 {
		return
	}
	eachInstr(g, func(i ssa.Instruction) {
		var found ssa.Value
		var gl *ssa.Global
		switch x := i.(type) {
		case *ssa.Lookup:
			if gl = globalRoot(x.X); gl != nil && storesInto[gl] {
				found = x
			}
		case *ssa.Call:
			if n := calleeName(x); (n == "(*sync.Map).Load" || n == "(*sync.Map).LoadOrStore") && len(x.Call.Args) > 0 {
				if gl = globalRoot(x.Call.Args[0]); gl != nil && storesInto[gl] {
					found = x
				}
			}
		}
		if found == nil {
			return
		}
		seen := map[ssa.Value]bool{}
		var direct func(v ssa.Value, d int) *ssa.Return
		direct = func(v ssa.Value, d int) *ssa.Return {
			if seen[v] || v.Referrers() == nil || d > 6 {
				return nil
			}
			seen[v] = true
			for _, r := range *v.Referrers() {
				switch z := r.(type) {
				case *ssa.Return:
					for _, res := range z.Results {
						if res == v && mutableContainer(v.Type()) {
							return z
						}
					}
				case *ssa.Extract:
					if z.Index == 0 {
						if ret := direct(z, d+1); ret != nil {
							return ret
						}
					}
				case *ssa.TypeAssert, *ssa.Phi, *ssa.ChangeType:
					if ret := direct(z.(ssa.Value), d+1); ret != nil {
						return ret
					}
				}
			}
			return nil
		}
		if ret := direct(found, 0); ret != nil {
			report("memo-alias:"+short1+"->"+gl.Name(), ret.Pos(), fmt.Sprintf("%s returns the list it keeps in package-level %s as it is: every caller that asks for the same key gets the same backing array, so a caller that edits its result (sorts it, filters it in place) changes what later callers receive", short1, gl.Name()))
		}
	})
	// the other half: the very list that is put into the memo is also what this call hands back (later hits may
	// well get a copy): the first caller holds the remembered list
	handedBack := func(v ssa.Value) ssa.Instruction {
		if v.Referrers() == nil {
			return nil
		}
		for _, r := range *v.Referrers() {
			switch z := r.(type) {
			case *ssa.Return:
				for _, res := range z.Results {
					if res == v {
						return z
					}
				}
			case *ssa.Store:
				// a result spilled to its cell because the function defers something
				if al, isAl := z.Addr.(*ssa.Alloc); isAl && z.Val == v && al.Referrers() != nil {
					for _, rr := range *al.Referrers() {
						if ld, isLd := rr.(*ssa.UnOp); isLd && ld.Referrers() != nil {
							for _, r3 := range *ld.Referrers() {
								if ret, isRet := r3.(*ssa.Return); isRet {
									return ret
								}
							}
						}
					}
				}
			}
		}
		return nil
	}
	eachInstr(g, func(i ssa.Instruction) {
		var val ssa.Value
		var gl *ssa.Global
		switch x := i.(type) {
		case *ssa.MapUpdate:
			if gl = globalRoot(x.Map); gl != nil {
				val = unwrapIface(x.Value)
			}
		case *ssa.Call:
			if n := calleeName(x); n == "(*sync.Map).Store" && len(x.Call.Args) == 3 {
				if gl = globalRoot(x.Call.Args[0]); gl != nil {
					val = unwrapIface(x.Call.Args[2])
				}
			}
		}
		if val == nil || gl == nil || !mutableContainer(val.Type()) {
			return
		}
		if _, isK := val.(*ssa.Const); isK {
			return
		}
		if at := handedBack(val); at != nil {
			report("memo-alias:"+short1+"->"+gl.Name()+":stored", i.Pos(), fmt.Sprintf("%s puts a list into package-level %s and hands the very same list back to its caller: a caller that edits its result (sorts it, overwrites an element) changes what every later call with the same arguments is given", short1, gl.Name()))
		}
	})
}

// shadowedError: a return hands back an error VARIABLE that is provably nil there (the SSA value is the
// constant nil, the source says `return …, err`), while a variable of the same name is declared again with :=
// in a nested block of the same function: the inner declaration receives the errors, the outer one that is
// returned never does, so the failure is detected and then dropped.
func shadowedError(c *Ctx, g *ssa.Function, short1 string) {
	fd, ok := g.Syntax().(*ast.FuncDecl)
	if !ok || fd.Body == nil {
		return
	}
	// names declared with := (or var) somewhere below the function's top-level block
	inner := map[string]token.Pos{}
	var walk func(n ast.Node, depth int)
	walk = func(n ast.Node, depth int) {
		ast.Inspect(n, func(x ast.Node) bool {
			switch y := x.(type) {
			case *ast.FuncLit:
				return false
			case *ast.BlockStmt:
				if y != fd.Body {
					for _, st := range y.List {
						if as, isAs := st.(*ast.AssignStmt); isAs && as.Tok == token.DEFINE {
							for _, l := range as.Lhs {
								if id, isId := l.(*ast.Ident); isId && id.Name != "_" {
									inner[id.Name] = id.Pos()
								}
							}
						}
					}
				}
			case *ast.IfStmt:
				if as, isAs := y.Init.(*ast.AssignStmt); isAs && as.Tok == token.DEFINE {
					for _, l := range as.Lhs {
						if id, isId := l.(*ast.Ident); isId && id.Name != "_" {
							inner[id.Name] = id.Pos()
						}
					}
				}
			}
			return true
		})
	}
	walk(fd.Body, 0)
	if len(inner) == 0 {
		return
	}
	retAt := map[token.Pos]*ast.ReturnStmt{}
	ast.Inspect(fd.Body, func(x ast.Node) bool {
		if _, isLit := x.(*ast.FuncLit); isLit {
			return false
		}
		if r, isRet := x.(*ast.ReturnStmt); isRet {
			retAt[r.Return] = r
		}
		return true
	})
	for _, r := range returnsOf(g) {
		rs := retAt[r.Pos()]
		if rs == nil || len(rs.Results) != len(r.Results) {
			continue
		}
		for k, res := range r.Results {
			if tname(res.Type()) != "error" {
				continue
			}
			kst, isC := res.(*ssa.Const)
			if !isC || !kst.IsNil() {
				continue
			}
			id, isId := rs.Results[k].(*ast.Ident)
			if !isId || id.Name == "nil" {
				continue
			}
			if at, shadowed := inner[id.Name]; shadowed {
				c.bad("STATE", "shadowed-error:"+short1, r.Pos(), fmt.Sprintf("%s returns the variable %s, which is always nil at this return, while a second %s is declared with := in a nested block (%s): the inner one receives the errors, the one that is returned never does, so a failure is detected and then reported as success", short1, id.Name, id.Name, c.W.pos(at)))
				return
			}
		}
	}
}

// runeNarrowed: the letters of a text are ranged over as runes and each is cut to one byte before it is
// written on (byte(letter) into WriteByte / append / an element store), with no test of the rune's size on
// the way: a non-ASCII letter becomes some other, valid-looking letter (U+0141 'Ł' -> 'A') or shifts what follows.
func runeNarrowed(c *Ctx, g *ssa.Function, short1 string) {
	tb := newTB(g)
	eachInstr(g, func(i ssa.Instruction) {
		cv, ok := i.(*ssa.Convert)
		if !ok || cv.Referrers() == nil {
			return
		}
		bt, isB := cv.Type().Underlying().(*types.Basic)
		if !isB || (bt.Kind() != types.Uint8 && bt.Kind() != types.Int8) {
			return
		}
		ex, isEx := cv.X.(*ssa.Extract)
		if !isEx || ex.Index != 2 { // next over a string yields (ok, index, rune)
			return
		}
		nx, isNext := ex.Tuple.(*ssa.Next)
		if !isNext || !nx.IsString {
			return
		}
		// the ranged text comes from an argument
		rg, _ := nx.Iter.(*ssa.Range)
		if rg == nil {
			return
		}
		if d, _ := dependsOnArgs(tb.T(rg.X)); !d {
			return
		}
		written := false
		for _, r := range *cv.Referrers() {
			switch x := r.(type) {
			case ssa.CallInstruction:
				n := calleeName(x)
				if strings.HasSuffix(n, ").WriteByte") || n == "builtin:append" {
					written = true
				}
			case *ssa.Store:
				if x.Val == ssa.Value(cv) {
					written = true
				}
			}
		}
		if !written {
			return
		}
		// a size test of the rune on the way here (r < 128, r > unicode.MaxASCII, r < utf8.RuneSelf) makes it safe
		runeT := tb.T(ex).String()
		for _, a := range pathCond(tb, g.Blocks[0], cv.Block()).atoms() {
			if a.Atom.Op == "binop" && strings.Contains(a.Atom.String(), runeT) {
				switch a.Atom.Name {
				case "<", "<=", ">", ">=":
					for _, side := range a.Atom.Args {
						if k, isC := side.constInt(); isC && k >= 0x7f && k <= 0x100 {
							return
						}
					}
				}
			}
		}
		c.bad("STATE", "rune-narrowed:"+short1, cv.Pos(), fmt.Sprintf("%s ranges over a text letter by letter and writes each letter on as byte(letter) without testing its size: a non-ASCII letter is cut to its low byte and becomes a different, valid-looking letter (U+0141 'Ł' is written as 'A'), and a multi-byte letter no longer takes the room it had", short1))
	})
}


// byteWidened: one byte of an argument text (text[i], or an element of []byte(text)) is turned into a rune
// and written on as a letter (WriteRune, string(rune(b))), with no test of its size on the way: a byte of 0x80
// or more -- half of a multi-byte letter, or just a byte of a text that is not UTF-8 -- comes out re-encoded as
// two bytes, so the result is longer than what was read and is not made of the same bytes.
func byteWidened(c *Ctx, g *ssa.Function, short1 string) {
	tb := newTB(g)
	eachInstr(g, func(i ssa.Instruction) {
		cv, ok := i.(*ssa.Convert)
		if !ok || cv.Referrers() == nil {
			return
		}
		xt, isB := cv.X.Type().Underlying().(*types.Basic)
		if !isB || xt.Kind() != types.Uint8 {
			return
		}
		rt, isB := cv.Type().Underlying().(*types.Basic)
		if !isB {
			return
		}
		sink := ""
		// a one-letter string is a sink only where it is written on; in a comparison it is just a letter test
		writtenOn := func(v ssa.Value) bool {
			if v.Referrers() == nil {
				return false
			}
			for _, r := range *v.Referrers() {
				switch x := r.(type) {
				case ssa.CallInstruction:
					if n := calleeName(x); strings.HasSuffix(n, ").WriteString") || n == "builtin:append" {
						return true
					}
				}
			}
			return false // a letter glued into a message ("... " + string(b)) is not the text handed on
		}
		switch {
		case rt.Kind() == types.String:
			if writtenOn(cv) {
				sink = "string(b)"
			}
		case rt.Kind() == types.Int32:
			for _, r := range *cv.Referrers() {
				switch x := r.(type) {
				case ssa.CallInstruction:
					if n := calleeName(x); strings.HasSuffix(n, ").WriteRune") {
						sink = "WriteRune(rune(b))"
					}
				case *ssa.Convert:
					if st, isS := x.Type().Underlying().(*types.Basic); isS && st.Kind() == types.String && writtenOn(x) {
						sink = "string(rune(b))"
					}
				}
			}
		}
		if sink == "" {
			return
		}
		// the byte is a byte of an argument text
		var text ssa.Value
		switch x := cv.X.(type) {
		case *ssa.Index:
			text = x.X
		case *ssa.UnOp:
			if ia, isIA := x.X.(*ssa.IndexAddr); isIA && x.Op == token.MUL {
				text = ia.X
			}
		}
		// the text itself, not the positions it is cut at, has to come from the caller; inside the module a
		// helper's texts may be made of a known alphabet, so only texts that come in from outside count
		for depth := 0; text != nil && depth < 6; depth++ {
			sl, isSl := text.(*ssa.Slice)
			if !isSl {
				break
			}
			text = sl.X
		}
		if text == nil || !isTextType(text.Type()) || g.Parent() != nil || !token.IsExported(g.Name()) {
			return
		}
		if d, _ := dependsOnArgs(tb.T(text)); !d {
			return
		}
		byteT := tb.T(cv.X).String()
		for _, a := range pathCond(tb, g.Blocks[0], cv.Block()).atoms() {
			if a.Atom.Op == "binop" && strings.Contains(a.Atom.String(), byteT) {
				switch a.Atom.Name {
				case "<", "<=", ">", ">=":
					for _, side := range a.Atom.Args {
						if k, isC := side.constInt(); isC && k >= 0x7f && k <= 0x100 {
							return
						}
					}
				}
			}
		}
		c.bad("STATE", "byte-widened:"+short1, cv.Pos(), fmt.Sprintf("%s takes the text one byte at a time and writes each on as %s without testing its size: a byte of 0x80 or more is re-encoded as a two-byte letter, so the text written is longer than the text read and is not made of the same bytes", short1, sink))
	})
}

// strictLetterRange: the same value is tested against both ends of a letter range ('a'..'z', 'A'..'Z', '0'..'9')
// and an end is left out by a strict comparison (x > 'a', x < 'z'): the first or the last letter of the range is
// not treated like the others.
func strictLetterRange(c *Ctx, g *ssa.Function, short1 string) {
	type bound struct {
		strict bool
		k      int64
		at     token.Pos
	}
	tb := newTB(g)
	lower, upper := map[string][]bound{}, map[string][]bound{}
	eachInstr(g, func(i ssa.Instruction) {
		b, ok := i.(*ssa.BinOp)
		if !ok {
			return
		}
		var x ssa.Value
		var k *ssa.Const
		op := b.Op
		if kc, isK := b.Y.(*ssa.Const); isK {
			x, k = b.X, kc
		} else if kc, isK := b.X.(*ssa.Const); isK {
			x, k = b.Y, kc
			switch op { // k op x  ==  x op' k
			case token.LSS:
				op = token.GTR
			case token.LEQ:
				op = token.GEQ
			case token.GTR:
				op = token.LSS
			case token.GEQ:
				op = token.LEQ
			}
		}
		if k == nil || k.Value == nil || k.Value.Kind() != constant.Int {
			return
		}
		if bt, isB := x.Type().Underlying().(*types.Basic); !isB || (bt.Kind() != types.Uint8 && bt.Kind() != types.Int32) {
			return
		}
		key := tb.T(x).String()
		switch op {
		case token.GTR, token.GEQ:
			lower[key] = append(lower[key], bound{op == token.GTR, k.Int64(), b.Pos()})
		case token.LSS, token.LEQ:
			upper[key] = append(upper[key], bound{op == token.LSS, k.Int64(), b.Pos()})
		}
	})
	ends := map[int64]int64{'a': 'z', 'A': 'Z', '0': '9'}
	for key, los := range lower {
		for _, lo := range los {
			hiK, isStart := ends[lo.k]
			if !isStart {
				continue
			}
			for _, hi := range upper[key] {
				if hi.k != hiK || !(lo.strict || hi.strict) {
					continue
				}
				var left []string
				if lo.strict {
					left = append(left, fmt.Sprintf("%q", rune(lo.k)))
				}
				if hi.strict {
					left = append(left, fmt.Sprintf("%q", rune(hi.k)))
				}
				c.bad("STATE", "strict-letter-range:"+short1, lo.at, fmt.Sprintf("%s tests a letter for the range %q..%q with a strict comparison at the end: %s stays outside the range and is not treated like the other letters", short1, rune(lo.k), rune(hi.k), strings.Join(left, " and ")))
				return
			}
		}
	}
}

// cutsetAsPrefix: strings.Trim / TrimLeft / TrimRight take a SET of characters, not a text: with a constant that
// reads like a text ("sdm-", "ss-DNA": several letters next to punctuation, or a character twice) every run of
// those characters goes, so a value that merely begins with some of them loses more than the prefix meant
// ("mRNA" trimmed with "sdm-" is "RNA").
func cutsetAsPrefix(c *Ctx, g *ssa.Function, short1 string) {
	tb := newTB(g)
	eachInstr(g, func(i ssa.Instruction) {
		ci, ok := i.(ssa.CallInstruction)
		if !ok {
			return
		}
		n := calleeName(ci)
		switch n {
		case "strings.Trim", "strings.TrimLeft", "strings.TrimRight", "bytes.Trim", "bytes.TrimLeft", "bytes.TrimRight":
		default:
			return
		}
		as := ci.Common().Args
		if len(as) != 2 {
			return
		}
		cut, isC := normText(tb.T(as[1])).constStr()
		if !isC {
			return
		}
		if d, _ := dependsOnArgs(tb.T(as[0])); !d {
			return
		}
		letters, punct, dup := map[rune]bool{}, 0, false
		seen := map[rune]bool{}
		for _, r := range cut {
			if seen[r] {
				dup = true
			}
			seen[r] = true
			switch {
			case unicode.IsLetter(r):
				letters[unicode.ToLower(r)] = true
			case unicode.IsDigit(r), unicode.IsSpace(r), r == '"', r == '\'':
			default:
				punct++
			}
		}
		if !(dup && len(letters) >= 1) && !(len(letters) >= 2 && punct >= 1 && len(cut) <= 5) { // (a long list with a sign in it is an alphabet)
			return
		}
		// "is anything left after the letters of this set are gone?" is a membership test, not a cut
		if v, isV := i.(ssa.Value); isV && v.Referrers() != nil {
			onlyTested := len(*v.Referrers()) > 0
			for _, r := range *v.Referrers() {
				switch x := r.(type) {
				case *ssa.DebugRef:
				case *ssa.BinOp:
					if x.Op != token.EQL && x.Op != token.NEQ {
						onlyTested = false
					}
				case *ssa.Call:
					if b, isB := x.Call.Value.(*ssa.Builtin); !isB || b.Name() != "len" {
						onlyTested = false
					}
				default:
					onlyTested = false
				}
			}
			if onlyTested {
				return
			}
		}
		c.bad("STATE", "cutset-as-prefix:"+short1, i.Pos(), fmt.Sprintf("%s calls %s with the cutset %q, which reads like a text to take off: the function removes every leading/trailing character that occurs in the set, so a value that merely begins (or ends) with some of those letters loses them too", short1, n, cut))
	})
}

// smallTableByByte: a local or package-level array of fewer than 256 elements is indexed by a byte of an
// argument text with no test of that byte on the way: any byte beyond the array (0x80.. for a [128] table) is a
// run-time panic instead of an answer.
func smallTableByByte(c *Ctx, g *ssa.Function, short1 string) {
	tb := newTB(g)
	eachInstr(g, func(i ssa.Instruction) {
		ia, ok := i.(*ssa.IndexAddr)
		if !ok {
			return
		}
		pt, isP := ia.X.Type().Underlying().(*types.Pointer)
		if !isP {
			return
		}
		arr, isA := pt.Elem().Underlying().(*types.Array)
		if !isA || arr.Len() >= 256 || arr.Len() < 2 {
			return
		}
		ix := ia.Index
		if cv, isCv := ix.(*ssa.Convert); isCv {
			ix = cv.X
		}
		bt, isB := ix.Type().Underlying().(*types.Basic)
		if !isB || bt.Kind() != types.Uint8 {
			return
		}
		var text ssa.Value
		switch x := ix.(type) {
		case *ssa.Index:
			text = x.X
		case *ssa.UnOp:
			if a, isIA := x.X.(*ssa.IndexAddr); isIA && x.Op == token.MUL {
				text = a.X
			}
		}
		for depth := 0; text != nil && depth < 6; depth++ {
			sl, isSl := text.(*ssa.Slice)
			if !isSl {
				break
			}
			text = sl.X
		}
		if text == nil || !isTextType(text.Type()) {
			return
		}
		if d, _ := dependsOnArgs(tb.T(text)); !d {
			return
		}
		byteT := tb.T(ix).String()
		for _, a := range pathCond(tb, g.Blocks[0], ia.Block()).atoms() {
			if strings.Contains(a.Atom.String(), byteT) {
				return // something was asked about the byte first
			}
		}
		c.bad("STATE", "small-table-by-byte:"+short1, ia.Pos(), fmt.Sprintf("%s indexes a table of %d elements with a byte of its text argument and asks nothing about that byte first: a byte of %d or more (any non-ASCII letter) is a run-time panic, index out of range, where the function has an answer to give", short1, arr.Len(), arr.Len()))
	})
}

// uncheckedErrorAssert: an error that came back from a call is asserted to one concrete type without the
// comma-ok form, on a path where only its being non-nil was asked: an error of any other type is a panic.
func uncheckedErrorAssert(c *Ctx, g *ssa.Function, short1 string) {
	tb := newTB(g)
	tb.NoInline = true
	eachInstr(g, func(i ssa.Instruction) {
		ta, ok := i.(*ssa.TypeAssert)
		if !ok || ta.CommaOk {
			return
		}
		if tname(ta.X.Type()) != "error" {
			return
		}
		if _, isIface := ta.AssertedType.Underlying().(*types.Interface); isIface {
			return
		}
		ex, isEx := ta.X.(*ssa.Extract)
		if !isEx {
			return
		}
		if _, isCall := ex.Tuple.(*ssa.Call); !isCall {
			return
		}
		errT := tb.T(ta.X).String()
		for _, a := range pathCond(tb, g.Blocks[0], ta.Block()).atoms() {
			as := a.Atom.String()
			if !strings.Contains(as, errT) {
				continue
			}
			if a.Atom.isBin("==") || a.Atom.isBin("!=") {
				continue // compared with nil or with one particular error value (io.EOF): says nothing about its type
			}
			return // its type was asked about in some other way
		}
		c.bad("STATE", "unchecked-error-assert:"+short1, ta.Pos(), fmt.Sprintf("%s asserts the error returned by %s to be a %s without the comma-ok form, having asked only whether it is nil: an error of any other type (a read failure of the underlying stream, say) makes the function panic instead of reporting it", short1, short(tb.T(ex.Tuple).String()), tname(ta.AssertedType)))
	})
}

// scratchReturned: g fills a package-level map or list with data computed from its arguments and hands that
// very container back: whatever lock g holds while filling is released when it returns, and the caller reads
// memory the next call (on another goroutine, or simply later) writes again.
func scratchReturned(c *Ctx, g *ssa.Function, short1 string) {
	if g.Signature.Results().Len() == 0 {
		return
	}
	tb := newTB(g)
	written := map[*ssa.Global]bool{}
	eachInstr(g, func(i ssa.Instruction) {
		switch x := i.(type) {
		case *ssa.MapUpdate:
			if gl := globalRoot(x.Map); gl != nil {
				if tb.T(x.Key).Op != "const" || tb.T(x.Value).Op != "const" { // computed at run time from something other than constants
					written[gl] = true
				}
			}
		case *ssa.Store:
			if ia, isIA := x.Addr.(*ssa.IndexAddr); isIA {
				if gl := globalRoot(ia.X); gl != nil {
					if d, _ := dependsOnArgs(tb.T(x.Val)); d {
						written[gl] = true
					}
				}
			}
		}
	})
	if len(written) == 0 {
		return
	}
	for _, r := range returnsOf(g) {
		for _, res := range r.Results {
			switch res.Type().Underlying().(type) {
			case *types.Map, *types.Slice:
			default:
				continue
			}
			// (read through the term: with a deferred call in g the result is spilled to a cell first)
			t := tb.T(res)
			for t != nil && t.Op == "field" && len(t.Args) == 1 {
				t = t.Args[0]
			}
			if t == nil || t.Op != "global" {
				continue
			}
			var gl *ssa.Global
			for w := range written {
				if strings.HasSuffix(t.Name, "."+w.Name()) {
					gl = w
				}
			}
			if gl == nil {
				continue
			}
			c.bad("STATE", "scratch-returned:"+short1+"->"+gl.Name(), r.Pos(), fmt.Sprintf("%s fills package-level %s with data computed from its arguments and returns that very container: any lock it holds while filling is gone when it returns, so its caller reads memory that the next call writes again (two overlapping calls get each other's numbers)", short1, gl.Name()))
			return
		}
	}
}

// doubleCheckedLocking: g looks at a package-level variable, takes a mutex only when it finds it unset, and
// sets it under that mutex: the first look is not covered by the lock, so it runs beside the store of another
// goroutine -- a data race; a reader may see the variable set while what it points to is not yet visible.
func doubleCheckedLocking(c *Ctx, g *ssa.Function, short1 string) {
	type lockAt struct {
		call ssa.Instruction
		idx  int
	}
	var locks []lockAt
	for _, b := range g.Blocks {
		for k, in := range b.Instrs {
			if cl, ok := in.(*ssa.Call); ok {
				switch calleeName(cl) {
				case "(*sync.Mutex).Lock", "(*sync.RWMutex).Lock", "(*sync.RWMutex).RLock":
					locks = append(locks, lockAt{cl, k})
				}
			}
		}
	}
	if len(locks) == 0 {
		return
	}
	before := func(b *ssa.BasicBlock, k int, l lockAt) bool { // instruction k of b runs before the lock is taken
		lb := l.call.Block()
		return (b == lb && k < l.idx) || (b != lb && b.Dominates(lb))
	}
	after := func(b *ssa.BasicBlock, k int, l lockAt) bool {
		lb := l.call.Block()
		return (b == lb && k > l.idx) || (b != lb && lb.Dominates(b))
	}
	for _, l := range locks {
		stored := map[*ssa.Global]ssa.Instruction{}
		for _, b := range g.Blocks {
			for k, in := range b.Instrs {
				if st, ok := in.(*ssa.Store); ok && after(b, k, l) {
					if gl, isG := st.Addr.(*ssa.Global); isG && gl.Pkg != nil && strings.HasPrefix(gl.Pkg.Pkg.Path(), modPath) {
						stored[gl] = st
					}
				}
			}
		}
		for _, b := range g.Blocks {
			for k, in := range b.Instrs {
				ld, ok := in.(*ssa.UnOp)
				if !ok || ld.Op != token.MUL || !before(b, k, l) {
					continue
				}
				gl, isG := ld.X.(*ssa.Global)
				if !isG || stored[gl] == nil {
					continue
				}
				covered := false
				for _, l2 := range locks {
					if l2.call != l.call && after(b, k, l2) {
						covered = true
					}
				}
				if covered {
					continue
				}
				c.bad("STATE", "double-checked-locking:"+short1+"->"+gl.Name(), ld.Pos(), fmt.Sprintf("%s looks at package-level %s before it takes the mutex (at %s) under which it sets it: the first look is not covered by the lock and runs beside another goroutine's store -- a data race; callers that arrive together may read a value that is set but whose content is not yet visible to them", short1, gl.Name(), c.W.pos(l.call.Pos())))
				return
			}
		}
	}
}

// firstMemberMissed: "is this letter one of these?" asked as strings.Index*(<constant list>, letter) > 0 (or
// "not one of them" as <= 0): position 0 is a hit too, so the first member of the list is treated as absent.
func firstMemberMissed(c *Ctx, g *ssa.Function, short1 string) {
	tb := newTB(g)
	eachInstr(g, func(i ssa.Instruction) {
		b, ok := i.(*ssa.BinOp)
		if !ok {
			return
		}
		var call ssa.Value
		op := b.Op
		if k, isK := b.Y.(*ssa.Const); isK && k.Value != nil && k.Value.Kind() == constant.Int && k.Int64() == 0 {
			call = b.X
		} else if k, isK := b.X.(*ssa.Const); isK && k.Value != nil && k.Value.Kind() == constant.Int && k.Int64() == 0 {
			call = b.Y
			switch op { // 0 op x  ==  x op' 0
			case token.LSS:
				op = token.GTR
			case token.GEQ:
				op = token.LEQ
			default:
				return
			}
		}
		if call == nil || (op != token.GTR && op != token.LEQ) {
			return
		}
		cl, isCall := call.(*ssa.Call)
		if !isCall {
			return
		}
		switch calleeName(cl) {
		case "strings.Index", "strings.IndexByte", "strings.IndexRune", "strings.IndexAny", "bytes.Index", "bytes.IndexByte", "bytes.IndexRune", "bytes.IndexAny":
		default:
			return
		}
		list, isK := normText(tb.T(cl.Call.Args[0])).constStr()
		if !isK || len(list) == 0 {
			return
		}
		// a position that is also used as a position (index-1, table[index]) is not a bare membership test
		if cl.Referrers() != nil {
			for _, r := range *cl.Referrers() {
				if _, isDbg := r.(*ssa.DebugRef); isDbg || r == ssa.Instruction(b) {
					continue
				}
				return
			}
		}
		c.bad("STATE", "first-member-missed:"+short1, b.Pos(), fmt.Sprintf("%s asks whether a letter is one of %q with %s(...) %s 0: the first member of the list is found at position 0, so %q is treated as not being in the list", short1, list, calleeName(cl), map[token.Token]string{token.GTR: ">", token.LEQ: "<="}[op], list[:1]))
	})
}

// memoByAddress: a value worked out from what a list or record of the caller contains is remembered in a
// package-level map under the ADDRESS of that memory (&list[0], &record.field): the key says where the data
// lives, not what it is, so after the caller changes the content in place (re-weights a table) the next call is
// given the number that belonged to the old content.
func memoByAddress(c *Ctx, g *ssa.Function, short1 string) {
	tb := newTB(g)
	eachInstr(g, func(i ssa.Instruction) {
		var key, val ssa.Value
		var gl *ssa.Global
		switch x := i.(type) {
		case *ssa.MapUpdate:
			if gl = globalRoot(x.Map); gl != nil {
				key, val = unwrapIface(x.Key), unwrapIface(x.Value)
			}
		case *ssa.Call:
			if n := calleeName(x); (n == "(*sync.Map).Store" || n == "(*sync.Map).LoadOrStore") && len(x.Call.Args) == 3 {
				if gl = globalRoot(x.Call.Args[0]); gl != nil {
					key, val = unwrapIface(x.Call.Args[1]), unwrapIface(x.Call.Args[2])
				}
			}
		}
		if gl == nil || key == nil {
			return
		}
		switch key.(type) {
		case *ssa.IndexAddr, *ssa.FieldAddr:
		default:
			return
		}
		if d, _ := dependsOnArgs(tb.T(key)); !d {
			return
		}
		if _, isK := val.(*ssa.Const); isK {
			return
		}
		c.bad("STATE", "memo-by-address:"+short1+"->"+gl.Name(), i.Pos(), fmt.Sprintf("%s remembers a value in package-level %s under the address of memory its caller owns (%s): the address stays the same when the caller changes what is stored there, so the next call is answered with the value that belonged to the old content", short1, gl.Name(), short(tb.T(key).String())))
	})
}

// narrowCounter: occurrences in an argument text are counted in an 8- or 16-bit integer (a map of int16, a
// []uint8 of tallies) inside a loop: the count wraps round (32767+1 = -32768) for inputs that are merely long.
func narrowCounter(c *Ctx, g *ssa.Function, short1 string) {
	narrow := func(t types.Type) (string, bool) {
		b, ok := t.Underlying().(*types.Basic)
		if !ok {
			return "", false
		}
		switch b.Kind() {
		case types.Int8, types.Int16, types.Uint16:
			return b.Name(), true
		}
		return "", false
	}
	isOne := func(v ssa.Value) bool {
		k, ok := v.(*ssa.Const)
		return ok && k.Value != nil && k.Value.Kind() == constant.Int && k.Int64() == 1
	}
	eachInstr(g, func(i ssa.Instruction) {
		var val ssa.Value
		switch x := i.(type) {
		case *ssa.MapUpdate:
			val = x.Value
		case *ssa.Store:
			if _, isIA := x.Addr.(*ssa.IndexAddr); isIA {
				val = x.Val
			}
		}
		if val == nil || !inLoop(i.Block()) {
			return
		}
		tn, isNarrow := narrow(val.Type())
		if !isNarrow {
			return
		}
		bo, isBO := val.(*ssa.BinOp)
		if !isBO || bo.Op != token.ADD || !(isOne(bo.X) || isOne(bo.Y)) {
			return
		}
		old := bo.X
		if isOne(bo.X) {
			old = bo.Y
		}
		switch o := old.(type) {
		case *ssa.Lookup:
		case *ssa.Extract:
			if _, isLk := o.Tuple.(*ssa.Lookup); !isLk {
				return
			}
		case *ssa.UnOp:
			if _, isIA := o.X.(*ssa.IndexAddr); !isIA {
				return
			}
		default:
			return
		}
		c.bad("STATE", "narrow-counter:"+short1, i.Pos(), fmt.Sprintf("%s counts occurrences in a loop with counters of type %s: a count wraps round once it passes the type's range (32767 for int16), so an input that is merely long gets negative or small counts", short1, tn))
	})
}

// gluedMemoKey: two texts that both come from the arguments are glued into one key of a package-level map
// with nothing between them ("ab"+"c" and "a"+"bc" are the same key): a value remembered for one pair is
// handed out for another.
func gluedMemoKey(c *Ctx, g *ssa.Function, short1 string) {
	tb := newTB(g)
	tb.NoInline = true
	eachInstr(g, func(i ssa.Instruction) {
		var key ssa.Value
		var gl *ssa.Global
		switch x := i.(type) {
		case *ssa.MapUpdate:
			if gl = globalRoot(x.Map); gl != nil {
				key = unwrapIface(x.Key)
			}
		case *ssa.Call:
			if n := calleeName(x); (n == "(*sync.Map).Store" || n == "(*sync.Map).LoadOrStore") && len(x.Call.Args) == 3 {
				if gl = globalRoot(x.Call.Args[0]); gl != nil {
					key = unwrapIface(x.Call.Args[1])
				}
			}
		}
		bo, isBO := key.(*ssa.BinOp)
		if gl == nil || !isBO || bo.Op != token.ADD {
			return
		}
		if bt, isB := bo.Type().Underlying().(*types.Basic); !isB || bt.Info()&types.IsString == 0 {
			return
		}
		argText := func(v ssa.Value) bool {
			if _, isK := v.(*ssa.Const); isK {
				return false
			}
			if inner, isB := v.(*ssa.BinOp); isB && inner.Op == token.ADD {
				return false // a longer chain: its own joints are looked at when it is the key's direct operand
			}
			d, _ := dependsOnArgs(tb.T(v))
			return d
		}
		if !argText(bo.X) || !argText(bo.Y) {
			return
		}
		c.bad("STATE", "glued-memo-key:"+short1+"->"+gl.Name(), i.Pos(), fmt.Sprintf("%s remembers a value in package-level %s under two argument texts glued together with nothing between them (%s): different pairs of texts give the same key (\"ab\"+\"c\" = \"a\"+\"bc\"), so what was remembered for one pair is handed out for the other", short1, gl.Name(), short(tb.T(key).String())))
	})
}

// writeUnderReadLock: a package-level map is written while the function holds only the READ side of a
// sync.RWMutex (RLock taken on the way, no Lock): read locks are shared, so two callers write the map at once.
func writeUnderReadLock(c *Ctx, g *ssa.Function, short1 string) {
	var rlocks, locks []*ssa.Call
	eachInstr(g, func(i ssa.Instruction) {
		if cl, ok := i.(*ssa.Call); ok {
			switch calleeName(cl) {
			case "(*sync.RWMutex).RLock":
				rlocks = append(rlocks, cl)
			case "(*sync.RWMutex).Lock", "(*sync.Mutex).Lock":
				locks = append(locks, cl)
			}
		}
	})
	if len(rlocks) == 0 {
		return
	}
	eachInstr(g, func(i ssa.Instruction) {
		mu, ok := i.(*ssa.MapUpdate)
		if !ok {
			return
		}
		gl := globalRoot(mu.Map)
		if gl == nil {
			return
		}
		held := false
		for _, r := range rlocks {
			if domInstr(r, mu) {
				held = true
			}
		}
		for _, l := range locks {
			if domInstr(l, mu) {
				held = false
			}
		}
		if !held {
			return
		}
		// the read lock given back before the write (RUnlock on the way, not deferred)?
		released := false
		eachInstr(g, func(j ssa.Instruction) {
			if cl, ok := j.(*ssa.Call); ok && calleeName(cl) == "(*sync.RWMutex).RUnlock" && domInstr(cl, mu) {
				released = true
			}
		})
		if released {
			return
		}
		c.bad("STATE", "write-under-read-lock:"+short1+"->"+gl.Name(), mu.Pos(), fmt.Sprintf("%s writes package-level %s while it holds only the read side of a sync.RWMutex (RLock, no Lock): read locks are shared, so two callers that arrive together write the map at the same time -- a data race that the run-time answers with \"concurrent map writes\"", short1, gl.Name()))
	})
}

// indexSummed: `for i := range list { total += i }` over a list of numbers whose elements the loop never
// reads: what is added up are the positions 0..n-1, not the numbers.
func indexSummed(c *Ctx, g *ssa.Function, short1 string) {
	fd, _ := g.Syntax().(*ast.FuncDecl)
	if fd == nil || fd.Body == nil || g.Pkg == nil {
		return
	}
	info := c.W.infoOf(g)
	if info == nil {
		return
	}
	ast.Inspect(fd.Body, func(n ast.Node) bool {
		rs, ok := n.(*ast.RangeStmt)
		if !ok || rs.Value != nil || rs.Key == nil {
			return true
		}
		key, isId := rs.Key.(*ast.Ident)
		if !isId || key.Name == "_" {
			return true
		}
		tv, have := info.Types[rs.X]
		if !have {
			return true
		}
		sl, isSl := tv.Type.Underlying().(*types.Slice)
		if !isSl {
			return true
		}
		if eb, isB := sl.Elem().Underlying().(*types.Basic); !isB || eb.Info()&types.IsNumeric == 0 {
			return true
		}
		keyObj := info.Defs[key]
		if keyObj == nil {
			keyObj = info.Uses[key]
		}
		listStr := types.ExprString(rs.X)
		readsElem, uses, sums := false, 0, 0
		var at token.Pos
		ast.Inspect(rs.Body, func(m ast.Node) bool {
			switch x := m.(type) {
			case *ast.IndexExpr:
				if types.ExprString(x.X) == listStr {
					readsElem = true
				}
			case *ast.Ident:
				if info.Uses[x] == keyObj && keyObj != nil {
					uses++
				}
			case *ast.AssignStmt:
				if x.Tok == token.ADD_ASSIGN && len(x.Rhs) == 1 {
					rhs := ast.Unparen(x.Rhs[0])
					if call, isCall := rhs.(*ast.CallExpr); isCall && len(call.Args) == 1 {
						if ftv, ok := info.Types[call.Fun]; ok && ftv.IsType() {
							rhs = ast.Unparen(call.Args[0])
						}
					}
					if id, isId := rhs.(*ast.Ident); isId && info.Uses[id] == keyObj && keyObj != nil {
						sums++
						at = x.Pos()
					}
				}
			}
			return true
		})
		if readsElem || sums == 0 || uses != sums {
			return true
		}
		c.bad("STATE", "index-summed:"+short1, at, fmt.Sprintf("%s ranges over the numbers in %s with a single loop variable -- the position -- and adds that to a total without ever reading an element: the total is 0+1+...+(n-1), not the sum of the numbers", short1, listStr))
		return true
	})
}

// flagRaisedBefore: in g, a package-level flag (a bool set to true, an integer set or swapped to non-zero
// through sync/atomic) is written at a point that dominates the write `at` into the package-level table tbl,
// and g also reads that flag: "built" is announced before the building.
func flagRaisedBefore(g *ssa.Function, at ssa.Instruction, tbl *ssa.Global) ssa.Instruction {
	var raised ssa.Instruction
	var flag *ssa.Global
	eachInstr(g, func(i ssa.Instruction) {
		if raised != nil {
			return
		}
		switch x := i.(type) {
		case *ssa.Store:
			gl, isG := x.Addr.(*ssa.Global)
			if !isG || gl == tbl {
				return
			}
			k, isC := x.Val.(*ssa.Const)
			if !isC || k.Value == nil || !(k.Value.ExactString() == "true" || k.Value.ExactString() == "1") {
				return
			}
			if domInstr(x, at) {
				raised, flag = x, gl
			}
		case *ssa.Call:
			n := calleeName(x)
			if !strings.HasPrefix(n, "sync/atomic.CompareAndSwap") && !strings.HasPrefix(n, "sync/atomic.Store") && !strings.HasSuffix(n, ").CompareAndSwap") && !(strings.HasPrefix(n, "(*sync/atomic.") && strings.HasSuffix(n, ").Store")) {
				return
			}
			if len(x.Call.Args) == 0 {
				return
			}
			gl, isG := x.Call.Args[0].(*ssa.Global)
			if !isG || gl == tbl {
				return
			}
			if domInstr(x, at) {
				raised, flag = x, gl
			}
		}
	})
	if raised == nil {
		return nil
	}
	// the flag is what decides whether to build: g reads it
	reads := false
	eachInstr(g, func(i ssa.Instruction) {
		switch x := i.(type) {
		case *ssa.UnOp:
			if x.Op.String() == "*" && x.X == ssa.Value(flag) {
				reads = true
			}
		case *ssa.Call:
			if len(x.Call.Args) > 0 && x.Call.Args[0] == ssa.Value(flag) && strings.Contains(calleeName(x), "atomic") {
				reads = true
			}
		}
	})
	if !reads {
		return nil
	}
	return raised
}

// infoOf: the type-checker's tables of the package g is declared in.
func (w *World) infoOf(g *ssa.Function) *types.Info {
	if g == nil || g.Pkg == nil || g.Pkg.Pkg == nil {
		return nil
	}
	if p := w.Pkgs[g.Pkg.Pkg.Path()]; p != nil {
		return p.TypesInfo
	}
	return nil
}
