package main

// window.go: the 3-letter window idiom shared by codon.Translate and codon.getCodonFrequency,
// decided in three states. The model is: one strings.Builder ("window") receives every rune of the
// source, unconditionally; a region of the loop body runs exactly when window.Len()==3; the window
// is Reset in that region; the loop leaves only at end of input.
//
// Verdicts rest on positive evidence only: a recognised window with a wrong size constant, no reset,
// a conditional letter write or an early exit is a violation; a loop this model does not recognise
// at all (index arithmetic, bytes.Buffer, helper-driven loops) is undecided.

import (
	"fmt"
	"go/token"
	"strings"

	"golang.org/x/tools/go/ssa"
)

type windowInfo struct {
	State int
	Why   string
	Win   string // term of the window builder
	Key   string // term of window.String()
	Write ssa.CallInstruction
	Loop  *ssa.BasicBlock // loop header
	tb    *TermBuilder
	lenEq string
}

// full reports whether block b runs only when the window holds exactly three letters (in the same iteration).
func (wi *windowInfo) full(b *ssa.BasicBlock) bool {
	if wi.Write == nil || !wi.Write.Block().Dominates(b) {
		return false
	}
	return pathCond(wi.tb, wi.Write.Block(), b).implies(wi.lenEq, false)
}

func stripConv(t *Term) *Term {
	for t != nil && t.Op == "conv" && len(t.Args) == 1 {
		t = t.Args[0]
	}
	return t
}

func windowModel(f *ssa.Function, tb *TermBuilder, src string) *windowInfo {
	wi := &windowInfo{State: unknown, tb: tb}
	letter := "extract[2](next(range(" + src + ")))"
	var letterWrites []ssa.CallInstruction
	var allWrites []ssa.CallInstruction
	var offset *Term
	eachInstr(f, func(i ssa.Instruction) {
		ci, ok := i.(ssa.CallInstruction)
		if !ok {
			return
		}
		switch calleeName(ci) {
		case "(*strings.Builder).WriteRune", "(*strings.Builder).WriteByte", "(*strings.Builder).WriteString", "(*strings.Builder).Write":
			allWrites = append(allWrites, ci)
			a := stripConv(tb.T(ci.Common().Args[1]))
			if a != nil && a.String() == letter {
				letterWrites = append(letterWrites, ci)
			} else if a != nil && a.Op == "extract" && a.Name == "2" && len(a.Args) == 1 && a.Args[0].Op == "next" && a.Args[0].Args[0].Op == "range" {
				// letters of something else: a slice of the source that does not start at 0 shifts the frame
				x := a.Args[0].Args[0].Args[0]
				if x.Op == "slice" && len(x.Args) >= 2 && x.Args[0].String() == src && !x.Args[1].isConst("0") && x.Args[1].Op != "nil" && len(opaqueParts(x.Args[1], nil)) == 0 {
					offset = x.Args[1]
				}
			}
		}
	})
	if len(letterWrites) == 0 && offset != nil {
		wi.State, wi.Why = broken, "the window is fed from "+src+" starting at offset "+short(offset.String())+", not at its first letter: the reading frame is shifted"
		return wi
	}
	if len(letterWrites) != 1 {
		wi.Why = fmt.Sprintf("%d sites write the runes of %s into a strings.Builder (the window model needs one)", len(letterWrites), src)
		return wi
	}
	wr := letterWrites[0]
	wi.Write = wr
	wi.Win = tb.T(wr.Common().Args[0]).String()
	if !strings.HasPrefix(wi.Win, "alloc[") {
		wi.Why = "the window builder " + short(wi.Win) + " is not a local of the function"
		return wi
	}
	wi.Key = "call[(*strings.Builder).String](" + wi.Win + ")"
	wi.lenEq = "binop[==](call[(*strings.Builder).Len](" + wi.Win + "), const[3])"
	for _, o := range allWrites {
		if o != wr && tb.T(o.Common().Args[0]).String() == wi.Win {
			wi.Why = "the window builder is written at more than one site"
			return wi
		}
	}
	hdr := enclosingLoopHeader(wr.Block())
	if hdr == nil {
		wi.Why = "the letter write is not in a loop"
		return wi
	}
	wi.Loop = hdr
	inLoop := func(b *ssa.BasicBlock) bool { return b == hdr || (hdr.Dominates(b) && reaches(b, hdr)) }
	// unconditional: from the loop's body entry to the write no condition applies
	var entry *ssa.BasicBlock
	for _, s := range hdr.Succs {
		if inLoop(s) && s != hdr {
			entry = s
		}
	}
	if entry == nil || !entry.Dominates(wr.Block()) {
		wi.Why = "loop body entry not found"
		return wi
	}
	if pc := pathCond(tb, entry, wr.Block()); pc.Op != "true" {
		if len(opaqueCond(pc)) == 0 {
			wi.State, wi.Why = broken, "a letter of the input reaches the window only under "+short(pc.String())+": letters are skipped, so codon frames shift"
		} else {
			wi.Why = "letter write is conditional on " + short(pc.String())
		}
		return wi
	}
	// the window size: every comparison of window.Len() with a constant
	lenT := "call[(*strings.Builder).Len](" + wi.Win + ")"
	sizes := map[int64]string{}
	eachInstr(f, func(i ssa.Instruction) {
		if bo, ok := i.(*ssa.BinOp); ok {
			t := tb.T(bo)
			if t.Op == "binop" && len(t.Args) == 2 {
				for k := 0; k < 2; k++ {
					if t.Args[k].String() == lenT {
						if n, ok := t.Args[1-k].constInt(); ok {
							sizes[n] = t.Name
						} else {
							sizes[-1] = t.Name
						}
					}
				}
			}
		}
	})
	if len(sizes) == 0 {
		wi.Why = "no test of the window's length found"
		return wi
	}
	if _, nonConst := sizes[-1]; nonConst || len(sizes) != 1 {
		wi.Why = "window length is tested in a form the model does not know"
		return wi
	}
	for n, op := range sizes {
		switch {
		case op != "==" && op != "!=":
			wi.Why = fmt.Sprintf("window length compared with %s %d", op, n)
			return wi
		case n != 3:
			wi.State, wi.Why = broken, fmt.Sprintf("the window is complete at %d letters; a codon has 3", n)
			return wi
		}
	}
	// resets
	nReset, resetFull, resetUncond := 0, false, false
	eachInstr(f, func(i ssa.Instruction) {
		if ci, ok := i.(ssa.CallInstruction); ok && calleeName(ci) == "(*strings.Builder).Reset" && tb.T(ci.Common().Args[0]).String() == wi.Win {
			nReset++
			if wi.full(ci.Block()) {
				resetFull = true
			} else if wr.Block().Dominates(ci.Block()) && pathCond(tb, wr.Block(), ci.Block()).Op == "true" {
				resetUncond = true
			}
		}
	})
	switch {
	case nReset == 0:
		wi.State, wi.Why = broken, "the window is never reset: after the first codon its length passes 3 and nothing more is emitted"
		return wi
	case resetUncond:
		wi.State, wi.Why = broken, "the window is reset after every letter, so it never holds a codon"
		return wi
	case !resetFull:
		wi.Why = "the window's Reset is not in the complete-window branch"
		return wi
	}
	// early exit
	for _, b := range f.Blocks {
		if b == hdr || !inLoop(b) {
			continue
		}
		for _, s := range b.Succs {
			if !inLoop(s) {
				wi.State, wi.Why = broken, "the loop has an exit other than end of input (at "+currentWorld.pos(b.Instrs[len(b.Instrs)-1].Pos())+"): the remaining codons are not processed"
				return wi
			}
		}
	}
	wi.State = holds
	return wi
}

// opaqueCond lists the parts of a path condition outside the closed vocabulary of pure std functions.
func opaqueCond(pc *Cond) []string {
	var out []string
	for _, a := range pc.atoms() {
		out = append(out, opaqueParts(a.Atom, nil)...)
	}
	return out
}

// poolHygiene: an object checked out of a sync.Pool inside f must be cleared before its first use
// (a Reset/Truncate that dominates every other use), or cleared on every way back into the pool.
// An object that is neither carries whatever an earlier call left in it: the result is no longer a
// function of this call's arguments. Reports one obligation per checkout site found; none = nothing.
func poolHygiene(c *Ctx, rule string, fs []*ssa.Function) {
	for _, f := range fs {
		eachInstr(f, func(i ssa.Instruction) {
			call, ok := i.(*ssa.Call)
			if !ok || calleeName(call) != "(*sync.Pool).Get" {
				return
			}
			// the checked-out object: follow type assertions
			vals := map[ssa.Value]bool{call: true}
			for changed := true; changed; {
				changed = false
				for v := range vals {
					for _, r := range *v.Referrers() {
						switch x := r.(type) {
						case *ssa.TypeAssert:
							if !vals[x] {
								vals[x], changed = true, true
							}
						case *ssa.Extract:
							if !vals[x] && x.Index == 0 {
								vals[x], changed = true, true
							}
						case *ssa.ChangeType:
							if !vals[x] {
								vals[x], changed = true, true
							}
						case *ssa.MakeInterface:
							if !vals[x] {
								vals[x], changed = true, true
							}
						}
					}
				}
			}
			var clears, uses []ssa.Instruction
			escapes := false
			for v := range vals {
				for _, r := range *v.Referrers() {
					ci, ok := r.(ssa.CallInstruction)
					if !ok {
						switch r.(type) {
						case *ssa.TypeAssert, *ssa.Extract, *ssa.ChangeType, *ssa.DebugRef, *ssa.MakeInterface:
						default:
							escapes = true // stored, captured by a closure, ...
						}
						continue
					}
					n := calleeName(ci)
					recv := len(ci.Common().Args) > 0 && ci.Common().Args[0] == v && ci.Common().Signature().Recv() != nil
					switch {
					case n == "(*sync.Pool).Put":
					case recv && (strings.HasSuffix(n, ").Reset") || strings.HasSuffix(n, ").Truncate")):
						clears = append(clears, ci)
					default:
						uses = append(uses, ci)
					}
				}
			}
			construct := "pooled object in " + strings.TrimPrefix(fname(f), "poly/")
			if escapes {
				c.undecided(rule, construct, call.Pos(), "the object taken from the pool is stored or captured; its clearing cannot be followed")
				return
			}
			pd := postDominators(f)
			guarded := false
			for _, cl := range clears {
				// on checkout: dominates every use
				all := true
				for _, u := range uses {
					if !(cl.Block() != u.Block() && cl.Block().Dominates(u.Block())) && !(cl.Block() == u.Block() && instrIndex(cl) < instrIndex(u)) {
						all = false
					}
				}
				// on return: runs on every path from the checkout to the function's exits
				if all || pd[call.Block()][cl.Block()] && !inAnyLoop(cl.Block()) {
					guarded = true
				}
			}
			c.check(guarded, rule, construct, call.Pos(), "the object checked out of the pool is cleared before use (or on every path back)",
				"an object taken from a sync.Pool is used without being cleared on checkout, and is only cleared conditionally afterwards: what an earlier call left in it (e.g. a trailing partial codon) becomes part of this call's result")
		})
	}
}

func inAnyLoop(b *ssa.BasicBlock) bool { return enclosingLoopHeader(b) != nil || reachesSelf(b) }

func reachesSelf(b *ssa.BasicBlock) bool {
	for _, s := range b.Succs {
		if s == b || reaches(s, b) {
			return true
		}
	}
	return false
}

// loopBodyEntry: the first block of the body of the innermost loop around b (nil if b is in no loop).
func loopBodyEntry(b *ssa.BasicBlock) *ssa.BasicBlock {
	hdr := enclosingLoopHeader(b)
	if hdr == nil {
		return nil
	}
	for _, s := range hdr.Succs {
		if s != hdr && hdr.Dominates(s) && reaches(s, hdr) && (s == b || s.Dominates(b)) {
			return s
		}
	}
	return nil
}

// scannerBytesRetained: (*bufio.Scanner).Bytes() returns a window into the scanner's own buffer that
// the next Scan overwrites. Storing that slice (or a sub-slice) into memory that outlives the
// iteration - appending it to a list, sending it, putting it in a map or struct - without copying
// makes earlier lines change after the fact. Reports one violation per retaining site; nothing otherwise.
func scannerBytesRetained(c *Ctx, rule string, fs []*ssa.Function) {
	for _, f := range fs {
		eachInstr(f, func(i ssa.Instruction) {
			call, ok := i.(*ssa.Call)
			if !ok || calleeName(call) != "(*bufio.Scanner).Bytes" {
				return
			}
			vals := map[ssa.Value]bool{call: true}
			for changed := true; changed; {
				changed = false
				for v := range vals {
					if v.Referrers() == nil {
						continue
					}
					for _, r := range *v.Referrers() {
						switch x := r.(type) {
						case *ssa.Slice:
							if !vals[x] {
								vals[x], changed = true, true
							}
						case *ssa.Phi:
							if !vals[x] {
								vals[x], changed = true, true
							}
						}
					}
				}
			}
			for v := range vals {
				if v.Referrers() == nil {
					continue
				}
				for _, r := range *v.Referrers() {
					retained := ""
					switch x := r.(type) {
					case *ssa.Store:
						if x.Val == v {
							retained = "stored"
						}
					case *ssa.Send:
						if x.X == v {
							retained = "sent on a channel"
						}
					case *ssa.MapUpdate:
						if x.Value == v {
							retained = "put in a map"
						}
					}
					if retained != "" {
						c.bad(rule, "scanner.Bytes() retained in "+strings.TrimPrefix(fname(f), "poly/"), r.Pos(), "the slice returned by scanner.Bytes() is "+retained+" without being copied: it points into the scanner's buffer, which the next Scan overwrites, so lines collected earlier change afterwards (long or many-line records come back corrupted)")
					}
				}
			}
		})
	}
}

// frameAlignment: codon functions read their input in frames of three letters from offset 0. When the
// input is processed block by block, every block boundary has to fall on a frame boundary: a constant
// block size (a slice bound of the sequence, or the step of an index that slices it) that is not a
// multiple of 3 drops or shifts letters at each boundary. One violation per such constant; nothing otherwise.
func frameAlignment(c *Ctx, rule string, fs []*ssa.Function) {
	seen := map[string]bool{}
	for _, f := range fs {
		tb := newTB(f)
		eachInstr(f, func(i ssa.Instruction) {
			sl, ok := i.(*ssa.Slice)
			if !ok || !isStringType(sl.X.Type()) {
				return
			}
			// the thing sliced is (derived from) a string parameter of f
			x := tb.T(sl.X)
			fromParam := false
			x.walk(func(t *Term) {
				if t.Op == "param" {
					fromParam = true
				}
			})
			if ph, isPhi := sl.X.(*ssa.Phi); isPhi && !fromParam {
				for _, e := range ph.Edges {
					if _, isP := e.(*ssa.Parameter); isP {
						fromParam = true
					}
				}
			}
			if !fromParam {
				return
			}
			for _, b := range []ssa.Value{sl.Low, sl.High} {
				if b == nil {
					continue
				}
				var ks []int64
				if k, ok := tb.T(b).constInt(); ok {
					ks = append(ks, k)
				}
				// an index stepping by a constant
				var ph *ssa.Phi
				switch y := b.(type) {
				case *ssa.Phi:
					ph = y
				case *ssa.BinOp:
					if p, ok := y.X.(*ssa.Phi); ok {
						ph = p
						if k, ok := tb.T(y.Y).constInt(); ok && y.Op == token.ADD {
							ks = append(ks, k)
						}
					}
				}
				if ph != nil {
					for _, e := range ph.Edges {
						if bo, ok := e.(*ssa.BinOp); ok && bo.Op == token.ADD && bo.X == ssa.Value(ph) {
							if k, ok := tb.T(bo.Y).constInt(); ok {
								ks = append(ks, k)
							}
						}
					}
				}
				for _, k := range ks {
					if k >= 4 && k%3 != 0 {
						key := fmt.Sprintf("%s:%d", fname(f), k)
						if seen[key] {
							continue
						}
						seen[key] = true
						c.bad(rule, fmt.Sprintf("block size %d in %s is a multiple of the codon length", k, strings.TrimPrefix(fname(f), "poly/")), sl.Pos(), fmt.Sprintf("the sequence is processed in blocks of %d letters; %d is not a multiple of 3, so at every block boundary %d letter(s) of a codon are cut off and every later codon is read out of frame (only inputs longer than one block show it)", k, k, k%3))
					}
				}
			}
		})
	}
}
