package main

// variants.go: the liveness suite. Each entry is one edit of the CURRENT tree (regexp on one file,
// applied in a scratch copy). "Fire" variants break the named clause and still type-check; the rule
// must report them under a key containing Expect. "Silent" variants preserve behaviour; no new
// violation may appear. A variant whose anchor text is gone is reported as skipped, never as a violation.

import "strings"

func init() {
	gb := "io/genbank/genbank.go"
	cd := "transform/codon/codon.go"
	fire := func(prop, name, file, find, repl, expect string) {
		addVariant(variant{Prop: prop, Name: name, File: file, Find: find, Replace: repl, Expect: expect})
	}
	silent := func(prop, name, file, find, repl string) {
		addVariant(variant{Prop: prop, Name: name, File: file, Find: find, Replace: repl, Silent: true})
	}
	// C01
	fire("C01", "accession-stored-as-version", gb, `meta\.Accession = joinSubLines`, `meta.Version = joinSubLines`, "FIELDMAP-R/")
	fire("C01", "readflat-wired-to-parsemulti", gb, `sequences := ParseFlat\(file\)`, `sequences := ParseMulti(file)`, "WRAPPERS/ReadFlat")
	fire("C01", "header-9-lines", gb, `"\\n"\)\[10:\]`, `"\n")[9:]`, "WRAPPERS/ParseFlat")
	fire("C01", "slash-stripped-again", gb, `attributeValue = strings\.Trim\(strings\.TrimSpace\(attributeSplit\[1\]\), "\\""\)`, `attributeValue = strings.ReplaceAll(strings.Trim(strings.TrimSpace(attributeSplit[1]), "\""), "/", "")`, "LOSSY/")
	fire("C01", "origin-filter-lowercase-only", gb, `\[\^a-zA-Z\]\+`, `[^a-z]+`, "TABLE/ORIGIN")
	fire("C01", "organism-continuation-misaligned", gb, `organismSubLines := subLines\[numSubLine\+1:\]`, `organismSubLines := subLines[numSubLine:]`, "PAIR-NEXT/")
	addVariant(variant{Prop: "C01", Name: "rename-splitLine", File: gb, Find: `\bsplitLine\b`, Replace: `lineFields`, Silent: true, All: true})
	// C02
	fire("C02", "span-start-not-shifted", gb, `Start: start - 1, End: end`, `Start: start, End: end`, "COORD/parser:span")
	fire("C02", "printer-end-plus-one", gb, `strconv\.Itoa\(location\.End\)`, `strconv.Itoa(location.End + 1)`, "COORD/printer")
	fire("C02", "evaluator-end-plus-one", "poly.go", `parentSequence\[location\.Start:location\.End\]`, `parentSequence[location.Start : location.End+1]`, "COORD/evaluator")
	fire("C02", "complement-flag-not-cleared-only", gb, `\t\tlocation\.Complement = false\n`, "\t\tlocation.Complement = false\n\t\tlocation.FivePrimePartial = false\n", "TERM-PRINT/complement")
	silent("C02", "printer-1-plus-start", gb, `strconv\.Itoa\(location\.Start\+1\)`, `strconv.Itoa(1 + location.Start)`)
	// C03
	fire("C03", "qualifier-sort-removed", gb, `\tsort\.Strings\(qualifierKeys\)\n`, ``, "MAPORDER/")
	fire("C03", "title-line-carries-journal", gb, `buildMetaString\("  TITLE", reference\.Title\)`, `buildMetaString("  TITLE", reference.Journal)`, "FIELDMAP-W/Reference.Title")
	fire("C03", "continuation-indent-11", gb, `generateWhiteSpace\(12\)`, `generateWhiteSpace(11)`, "LAYOUT/continuation")
	fire("C03", "origin-50-per-line", gb, `index%60 == 0`, `index%50 == 0`, "LAYOUT/ORIGIN")
	fire("C03", "remark-dropped", gb, `buildMetaString\("  REMARK", reference\.Remark\)`, `buildMetaString("  REMARK", "")`, "FIELDMAP-W/Reference.Remark")
	silent("C03", "sort-slice-instead-of-strings", gb, `sort\.Strings\(otherKeys\)`, `sort.Slice(otherKeys, func(i, j int) bool { return otherKeys[i] < otherKeys[j] })`)
	// C04 / C05
	sh := "seqhash/seqhash.go"
	fire("C04", "strands-compared-before-rotation", sh, `RotateSequence\(transform\.ReverseComplement\(sequence\)\)`, `transform.ReverseComplement(RotateSequence(sequence))`, "TERM-CANON/DNA circular=true doubleStranded=true")
	fire("C04", "upper-casing-dropped", sh, `sequence = strings\.ToUpper\(sequence\)`, `sequence = strings.TrimSpace(sequence)`, "DEPEND/")
	fire("C05", "topology-letter-always-L", sh, `circularLetter = "C"`, `circularLetter = "L"`, "TERM-FORMAT/")
	fire("C05", "double-stranded-protein-accepted", sh, `\tif sequenceType == "PROTEIN" && doubleStranded \{\n\t\treturn "", errors\.New\("Proteins cannot be double stranded"\)\n\t\}\n`, ``, "GUARD/rejects PROTEIN")
	fire("C05", "version-tag-v2", sh, `seqhash := "v1" \+ "_"`, `seqhash := "v2" + "_"`, "TERM-FORMAT/")
	// C06
	fire("C06", "table11-TGA-becomes-W", cd, `11: generateCodonTable\("FFLLSSSSYY\*\*CC\*W`, `11: generateCodonTable("FFLLSSSSYY**CCWW`, "TABLE-NCBI/table11")
	fire("C06", "start-mark-wrong-rune", cd, `starts\[i\] == 77`, `starts[i] == 78`, "SHAPE-GEN/start")
	fire("C06", "translate-window-2", cd, `currentCodon\.Len\(\) == 3 \{\n\t\t\taminoAcids`, "currentCodon.Len() == 2 {\n\t\t\taminoAcids", "SHAPE-XLATE/")
	silent("C06", "base-string-split", cd, `base1 := "TTTTTTTTTTTTTTTTCCCCCCCCCCCCCCCC`, `base1 := "TTTTTTTTTTTTTTTT" + "CCCCCCCCCCCCCCCC`)
	// C07
	fire("C07", "threshold-not-strict", cd, `codonPercentage > 0\.10`, `codonPercentage >= 0.10`, "TERM-CHOOSER/eligible")
	fire("C07", "weights-flattened", cd, `Weight: uint\(codon\.Weight\)`, `Weight: 1`, "TERM-CHOOSER/Choice.Weight")
	fire("C07", "alphabet-J-again", "random/random.go", `ACDEFGHIKLMNPQRSTVWY"\)`, `ACDEFGHIJLMNPQRSTVWY")`, "TABLE-ALPHABET/")
	fire("C07", "miss-guard-removed", cd, `\t\tif !ok \{\n\t\t\treturn "", errors\.New\("amino acid "[^\n]*\n\t\t\}\n`, "\t\t_ = ok\n", "GUARD-MISS/")
	// C08
	fire("C08", "count-window-2", cd, `currentCodon\.Len\(\) == 3 \{\n\t\t\t// if codon is already`, "currentCodon.Len() == 2 {\n\t\t\t// if codon is already", "TERM-COUNT/")
	fire("C08", "counts-not-upper-cased", cd, `\tsequence = strings\.ToUpper\(sequence\)\n\tcodonFrequencyMap`, "\tcodonFrequencyMap", "TERM-COUNT/OptimizeTable")
	fire("C08", "second-in-place-writer", cd, `\t// Add up codons\n`, "\tif len(firstCodonTable.AminoAcids) > 0 && len(firstCodonTable.AminoAcids[0].Codons) > 0 {\n\t\tfirstCodonTable.AminoAcids[0].Codons[0].Weight = 0\n\t}\n\t// Add up codons\n", "AddCodonTable")
	// C09
	cl := "clone/clone.go"
	fire("C09", "dedup-single-stranded", cl, `seqhash\.Hash\(construct, "DNA", true, true\)`, `seqhash.Hash(construct, "DNA", true, false)`, "TERM-DEDUP/key")
	fire("C09", "close-before-wait", cl, `\twg\.Wait\(\)\n\tclose\(c\)`, "\tclose(c)\n\twg.Wait()", "CHANLIFE/")
	fire("C09", "palindrome-guard-removed", cl, ` && \(seedFragment\.ReverseOverhang != transform\.ReverseComplement\(seedFragment\.ReverseOverhang\)\)`, ``, "TERM-LIGATE/flipped")
	fire("C09", "directional-false", cl, `CutWithEnzymeByName\(sequence, true, enzymeStr\)`, `CutWithEnzymeByName(sequence, false, enzymeStr)`, "WRAPPERS/GoldenGate")
	// C10
	fire("C10", "bbsi-skip-1", cl, `regexp\.MustCompile\("GTCTTC"\), 2, 4`, `regexp.MustCompile("GTCTTC"), 1, 4`, "TABLE-ENZ/BbsI")
	fire("C10", "forward-cut-minus-skip", cl, `forwardCut\[1\] \+ enzyme\.Skip`, `forwardCut[1] - enzyme.Skip`, "TERM-GEOM/forward")
	fire("C10", "filter-polarity", cl, `currentOverhang\.Forward && !nextOverhang\.Forward`, `currentOverhang.Forward && nextOverhang.Forward`, "TERM-GEOM/fragment")
	fire("C10", "overhang-slice-off-by-one", cl, `ForwardOverhang: fragment\[:enzyme\.OverhangLen\]`, `ForwardOverhang: fragment[:enzyme.OverhangLen-1]`, "TERM-GEOM/Fragment")
	// C11
	tr := "transform/transform.go"
	fire("C11", "K-maps-to-K", tr, `75:  77,`, `75:  75,`, "TABLE-COMP/")
	fire("C11", "H-loses-T", "transform/variants/variants.go", `'H': \[\]rune\{'A', 'C', 'T'\}`, `'H': []rune{'A', 'C'}`, "TABLE-IUPAC/")
	fire("C11", "palindrome-against-complement", "checks/checks.go", `sequence == transform\.ReverseComplement\(sequence\)`, `sequence == transform.Complement(sequence)`, "TERM/IsPalindromic")
	silent("C11", "rune-literal-key", tr, `65:  84,`, `'A': 'T',`)
	// C12
	fire("C12", "window-one-short", sh, `rotationIndex : rotationIndex\+len\(sequence\)\]`, `rotationIndex : rotationIndex+len(sequence)-1]`, "TERM/RotateSequence")
	fire("C12", "greatest-rotation", sh, `if character < sequence\[leastRotationIndex\] \{`, `if character > sequence[leastRotationIndex] {`, "ORDER-DIR/")
	// C13
	fa := "io/fasta/fasta.go"
	fire("C13", "close-dropped", fa, `\tsequences <- newFasta\n\tclose\(sequences\)\n\}`, "\tsequences <- newFasta\n}", "CHANLIFE/close-once")
	fire("C13", "lines-joined-with-newline", fa, `strings\.Join\(sequenceLines, ""\)\n\t\t\tnewFasta`, "strings.Join(sequenceLines, \"\\n\")\n\t\t\tnewFasta", "TERM/parser:sequence")
	fire("C13", "scanner-buffer-removed", fa, `\tscanner\.Buffer\([^\n]*\n`, ``, "SCANCAP/")
	// C14
	gf := "io/gff/gff.go"
	fire("C14", "start-not-shifted", gf, `\t\t\trecord\.SequenceLocation\.Start--\n`, ``, "COORD/Parse:col4")
	fire("C14", "attribute-sort-removed", gf, `\t\tsort\.Strings\(keys\)\n`, "\t\t_ = sort.Strings\n", "MAPORDER/")
	fire("C14", "score-strand-swapped-in-writer", gf, `featureScore \+ TAB \+ featureStrand`, `featureStrand + TAB + featureScore`, "FIELDMAP/Build:col6")
	fire("C14", "unguarded-prefix-slice", gf, `strings\.HasPrefix\(line, "##"\)`, `line[0:2] == "##"`, "PREFIX/")
	// C15
	fire("C15", "score-tag-collides-with-type", "poly.go", "Score                string            `json:\"score\"`", "Score                string            `json:\"type\"`", "TAGS/poly.Feature")
	fire("C15", "omitempty-on-sublocations", "poly.go", `json:"sub_locations"`, `json:"sub_locations,omitempty"`, "TAGS/poly.Location")
	fire("C15", "copy-before-link", "poly.go", `\tfeature\.ParentSequence = sequence\n\tvar featureCopy Feature = \*feature\n`, "\tvar featureCopy Feature = *feature\n\tfeature.ParentSequence = sequence\n", "RELINK/AddFeature")
	// C16
	rb := "io/rebase/rebase.go"
	fire("C16", "organism-stored-as-source", rb, `enzyme\.MicroOrganism = line\[3:\]`, `enzyme.Source = line[3:]`, "FIELDMAP/")
	addVariant(variant{Prop: "C16", Name: "trim-tabs-only", File: rb, Find: `" \\t"`, Replace: `"\t"`, Expect: "INDENT/", All: true})
	silent("C16", "accumulator-not-reset", rb, `\t\t\tenzyme = Enzyme\{\}\n`, ``) // every record carries all of <1>..<8> (quantifier): each field is overwritten, so no leak
	fire("C16", "first-supplier-skipped", rb, `commercialParsingLine > 2`, `commercialParsingLine > 3`, "INDENT/TABLE-START")
	// C17
	pr := "primers/primers.go"
	fire("C17", "end-not-shifted", pr, `\t\t\t\tstart\+\+\n\t\t\t\tend\+\+\n\t\t\t\tbarcodeNum\+\+\n\t\t\t\}\n\t\t\t// Check reverse`, "\t\t\t\tstart++\n\t\t\t\tbarcodeNum++\n\t\t\t}\n\t\t\t// Check reverse", "INVARIANT/")
	fire("C17", "stride-too-long", pr, `start = barcodeNum \* \(length - \(maxSubSequence - 1\)\)`, `start = barcodeNum * (length - maxSubSequence)`, "STRIDE/start0")
	fire("C17", "suffix-n-letters", pr, `b\[0:substringLength-1\]`, `b[0:substringLength]`, "TERM/result")
	// C18
	fire("C18", "cutoff-conjunction", cd, `\(firstTripletWeight < cutOffWeight\) \|\| \(secondTripletWeight < cutOffWeight\)`, `(firstTripletWeight < cutOffWeight) && (secondTripletWeight < cutOffWeight)`, "TERM-COMP/0 iff")
	fire("C18", "mean-not-halved", cd, `\+float64\(secondTripletWeight\)\)/2\)`, `+float64(secondTripletWeight)))`, "TERM-COMP/mean")
	fire("C18", "upper-bound-not-strict", cd, `if cutOff > 1 \{`, `if cutOff >= 1 {`, "GUARD/")
	fire("C18", "second-total-swapped", cd, `float64\(secondWeights\[i\]\) / float64\(secondTotal\)`, `float64(secondWeights[i]) / float64(firstTotal)`, "TERM-COMP/share2")
	// C19
	fire("C19", "neighbour-loop-one-short", pr, `i\+1 < len\(sequence\)`, `i+2 < len(sequence)`, "TERM-TM/neighbour")
	fire("C19", "symmetry-factor-always-4", pr, `symmetryFactor = 1\n`, "symmetryFactor = 4\n", "TERM-TM/Tm")
	fire("C19", "marmur-doty-minus-5", pr, `- 7\.0`, `- 5.0`, "TERM/MarmurDoty")
	fire("C19", "salt-term-added-to-dH", pr, `dS \+= \(0\.368`, `dH += (0.368`, "TERM-TM/salt")
	silent("C19", "loop-bound-len-minus-1", pr, `i\+1 < len\(sequence\)`, `i < len(sequence)-1`)
	// C20
	up := "io/uniprot/uniprot.go"
	fire("C20", "error-does-not-leave-loop", up, `errors <- err\n\t\t\tbreak\n`, "errors <- err\n", "LOOPEXIT/")
	fire("C20", "errors-channel-not-closed", up, `\tclose\(errors\)\n`, ``, "CHANLIFE/close-once")
	fire("C20", "wrong-element-name", up, `startElement\.Name\.Local == "entry"`, `startElement.Name.Local == "entries"`, "GUARD/entry send")
}

// Positive examples for the rules whose instance count on the current tree is zero (they report only
// when the hazardous construct appears): each must fire on its variant on every thorough run.
func init() {
	gb := "io/genbank/genbank.go"
	cd := "transform/codon/codon.go"
	fire := func(prop, name, file, find, repl, expect string) {
		addVariant(variant{Prop: prop, Name: name, File: file, Find: find, Replace: repl, Expect: expect})
	}
	fire("C01", "reference-split-on-two-blanks", gb, `reference\.Index = strings\.Split\(base, " "\)\[0\]`, `reference.Index = strings.SplitN(base, "  ", 2)[0]`, "FIELDMAP-R/REFERENCE number")
	fire("C03", "qualifier-keys-sorted-case-insensitively", gb, `sort\.Strings\(qualifierKeys\)`, `sort.Slice(qualifierKeys, func(i, j int) bool { return strings.ToLower(qualifierKeys[i]) < strings.ToLower(qualifierKeys[j]) })`, "MAPORDER/")
	fire("C03", "one-base-location-printed-before-flags", gb, `func BuildLocationString\(location poly\.Location\) string \{\n`, "func BuildLocationString(location poly.Location) string {\n\tif len(location.SubLocations) == 0 && location.End-location.Start == 1 {\n\t\treturn strconv.Itoa(location.End)\n\t}\n", "TERM-PRINT/every form")
	fire("C05", "circular-flag-cleared-for-short-input", "seqhash/seqhash.go", `\tsequence = strings\.ToUpper\(sequence\)\n`, "\tsequence = strings.ToUpper(sequence)\n\tif len(sequence) < 2 {\n\t\tcircular = false\n\t}\n", "TERM-FORMAT/flag circular")
	fire("C08", "add-table-appends-into-first-operand", cd, `var finalCodons \[\]Codon\n\t\tfor _, firstCodon`, "finalCodons := firstAa.Codons[:0]\n\t\tfor _, firstCodon", "WRITERS/AddCodonTable")
	fire("C09", "extension-skips-bodies-already-in-seed", "clone/clone.go", `if seedFragment\.ReverseOverhang == newFragment\.ForwardOverhang \{`, `if seedFragment.ReverseOverhang == newFragment.ForwardOverhang && !strings.Contains(seedFragment.Sequence, newFragment.Sequence) {`, "TERM-LIGATE/forward")
	fire("C10", "short-stretches-dropped", "clone/clone.go", `\t\tfor _, fragment := range fragmentSeqs \{\n`, "\t\tfor _, fragment := range fragmentSeqs {\n\t\t\tif len(fragment) <= 2*enzyme.OverhangLen {\n\t\t\t\tcontinue\n\t\t\t}\n", "TERM-GEOM/Fragment")
	// (the early-exit rule ORDER-DIR/BYTEWISE no longer claims a violation: a sound cut-off and a lost comparison have the same loop shape; its variant "scan-stops-at-long-border" was removed with it)
	fire("C13", "non-blocking-final-send", "io/fasta/fasta.go", `\tsequences <- newFasta\n\tclose\(sequences\)`, "\tselect {\n\tcase sequences <- newFasta:\n\tdefault:\n\t}\n\tclose(sequences)", "CHANLIFE/blocking-sends")
	fire("C14", "attribute-pairs-trimmed", "io/gff/gff.go", `strings\.Split\(attribute, "="\)`, `strings.Split(strings.TrimSpace(attribute), "=")`, "FIELDMAP/Parse:col9")
	fire("C15", "features-readded-conditionally", "io/polyjson/polyjson.go", `\t\tsequence\.AddFeature\(&feature\)\n`, "\t\tif feature.SequenceLocation.End <= len(sequence.Sequence) {\n\t\t\tsequence.AddFeature(&feature)\n\t\t}\n", "RELINK/Parse:AddFeature")
	fire("C16", "payload-cut-with-trimleft", "io/rebase/rebase.go", `enzyme\.Name = line\[3:\]`, `enzyme.Name = strings.TrimLeft(line, "<1>")`, "FIELDMAP/<1>")
	fire("C18", "cutoff-truncated-to-percent", cd, `cutOffWeight := int\(10000 \* cutOff\)`, `cutOffWeight := 100 * int(100*cutOff)`, "TERM-COMP/0 iff")
	fire("C20", "unexpected-eof-ends-silently", "io/uniprot/uniprot.go", `err\.Error\(\) == "EOF"`, `err.Error() == "EOF" || err == io.ErrUnexpectedEOF`, "LOOPEXIT/only io.EOF")
	fire("C20", "error-channel-of-one", "io/uniprot/uniprot.go", `make\(chan error, 100\)`, `make(chan error, 1)`, "CHANLIFE/Read:error channel")
}

// positive examples for the shared rules on package-level state (state.go): on today's tree the rules
// match nothing, so each has a variant that must fire and a sibling that must stay silent
func init() {
	sh := "seqhash/seqhash.go"
	cl := "clone/clone.go"
	pj := "io/polyjson/polyjson.go"
	fire := func(prop, name, file, find, repl, expect string) {
		addVariant(variant{Prop: prop, Name: name, File: file, Find: find, Replace: repl, Expect: expect})
	}
	silent := func(prop, name, file, find, repl string) {
		addVariant(variant{Prop: prop, Name: name, File: file, Find: find, Replace: repl, Silent: true})
	}
	fire("C12", "failure-table-kept-between-calls", sh, `(?s)func boothLeastRotation\(sequence string\) int \{\n(.*?)\tfailureSlice := make\(\[\]int, len\(sequence\)\)\n`,
		"var failureScratch []int\n\nfunc boothLeastRotation(sequence string) int {\n${1}\tif cap(failureScratch) < len(sequence) {\n\t\tfailureScratch = make([]int, len(sequence))\n\t}\n\tfailureSlice := failureScratch[:len(sequence)]\n", "STATE/scratch")
	memo := func(key string) string {
		return "var palindromeMemo sync.Map\n\nfunc CutWithEnzyme(seq Part, directional bool, enzyme Enzyme) []Fragment {\n${1}\tvar palindromic bool\n\tif known, ok := palindromeMemo.Load(" + key + "); ok {\n\t\tpalindromic = known.(bool)\n\t} else {\n\t\tpalindromic = checks.IsPalindromic(enzyme.RecognitionSite)\n\t\tpalindromeMemo.Store(" + key + ", palindromic)\n\t}\n"
	}
	cutHead := `(?s)func CutWithEnzyme\(seq Part, directional bool, enzyme Enzyme\) \[\]Fragment \{\n(.*?)\tpalindromic := checks\.IsPalindromic\(enzyme\.RecognitionSite\)\n`
	fire("C10", "palindrome-remembered-by-enzyme-name", cl, cutHead, memo("enzyme.Name"), "STATE/memo-key")
	silent("C10", "palindrome-remembered-by-recognition-site", cl, cutHead, memo("enzyme.RecognitionSite"))
	fire("C15", "json-encoded-into-pooled-buffer", pj, `(?s)"encoding/json"\n(.*?)func Write\(sequence poly\.Sequence, path string\) \{\n\tfile, _ := json\.MarshalIndent\(sequence, "", " "\)\n`,
		"\"bytes\"\n\t\"encoding/json\"\n\t\"sync\"\n${1}var jsonBuffers = sync.Pool{New: func() interface{} { return new(bytes.Buffer) }}\n\nfunc encodeJSON(sequence poly.Sequence) []byte {\n\tbuffer := jsonBuffers.Get().(*bytes.Buffer)\n\tdefer jsonBuffers.Put(buffer)\n\tbuffer.Reset()\n\tencoder := json.NewEncoder(buffer)\n\tencoder.SetIndent(\"\", \" \")\n\t_ = encoder.Encode(sequence)\n\treturn bytes.TrimSuffix(buffer.Bytes(), []byte(\"\\n\"))\n}\n\nfunc Write(sequence poly.Sequence, path string) {\n\tfile := encodeJSON(sequence)\n", "STATE/pool")
	loopHead := `(?s)\t\tfor _, newFragment := range fragmentList \{\n(.*?)newSeed := Fragment\{seedFragment\.Sequence \+ seedFragment\.ReverseOverhang \+ newFragment\.Sequence, seedFragment\.ForwardOverhang, newFragment\.ReverseOverhang\}\n\t\t\t\twg\.Add\(1\)\n\t\t\t\tgo recurseLigate\(wg, c, newSeed, fragmentList\)\n`
	hoisted := func(spawn string) string {
		return "\t\tvar newSeed Fragment\n\t\tfor _, newFragment := range fragmentList {\n${1}newSeed = Fragment{seedFragment.Sequence + seedFragment.ReverseOverhang + newFragment.Sequence, seedFragment.ForwardOverhang, newFragment.ReverseOverhang}\n\t\t\t\twg.Add(1)\n\t\t\t\t" + spawn + "\n"
	}
	fire("C09", "grown-seed-shared-with-started-worker", cl, loopHead, hoisted("go func() { recurseLigate(wg, c, newSeed, fragmentList) }()"), "STATE/go-capture")
	silent("C09", "grown-seed-passed-to-started-worker", cl, loopHead, hoisted("go func(seed Fragment) { recurseLigate(wg, c, seed, fragmentList) }(newSeed)"))
	fa := "io/fasta/fasta.go"
	hdrFind := `(?s)import \(\n(.*?)\t\tfastaString\.WriteString\(">"\)\n\t\tfastaString\.WriteString\(fasta\.Name\)\n\t\tfastaString\.WriteString\("\\n"\)\n`
	fire("C13", "record-name-used-as-format", fa, hdrFind, "import (\n\t\"fmt\"\n${1}\t\tfmt.Fprintf(&fastaString, \">\"+fasta.Name+\"\\n\")\n", "STATE/format")
	silent("C13", "record-name-formatted-with-verb", fa, hdrFind, "import (\n\t\"fmt\"\n${1}\t\tfmt.Fprintf(&fastaString, \">%s\\n\", fasta.Name)\n")
	fire("C20", "decoder-made-lenient", "io/uniprot/uniprot.go", `\tdecoder := xml\.NewDecoder\(r\)\n`, "\tdecoder := xml.NewDecoder(r)\n\tdecoder.Strict = false\n", "GUARD/decoder stays strict")
	fire("C04", "strands-rotated-by-goroutines-appending-to-one-slice", sh, `(?s)import \(\n(.*?)\t\tpotentialSequences := \[\]string\{RotateSequence\(sequence\), RotateSequence\(transform\.ReverseComplement\(sequence\)\)\}\n`,
		"import (\n\t\"sync\"\n${1}\t\tvar potentialSequences []string\n\t\tvar rotations sync.WaitGroup\n\t\tfor _, strand := range []string{sequence, transform.ReverseComplement(sequence)} {\n\t\t\trotations.Add(1)\n\t\t\tgo func(strand string) {\n\t\t\t\tdefer rotations.Done()\n\t\t\t\tpotentialSequences = append(potentialSequences, RotateSequence(strand))\n\t\t\t}(strand)\n\t\t}\n\t\trotations.Wait()\n", "STATE/go-shared-write")
	fire("C15", "parsed-file-remembered-by-path", pj, `(?s)"encoding/json"\n(.*?)func Read\(path string\) poly\.Sequence \{\n\tfile, _ := ioutil\.ReadFile\(path\)\n\tsequence := Parse\(file\)\n`,
		"\"encoding/json\"\n\t\"sync\"\n${1}var parsedFiles sync.Map\n\nfunc Read(path string) poly.Sequence {\n\tif cached, ok := parsedFiles.Load(path); ok {\n\t\treturn cached.(poly.Sequence)\n\t}\n\tfile, _ := ioutil.ReadFile(path)\n\tsequence := Parse(file)\n\tparsedFiles.Store(path, sequence)\n", "STATE/memo-key")
	fire("C20", "decoding-error-sent-without-waiting", "io/uniprot/uniprot.go", `\t\t\t\terrors <- err\n\t\t\t\}\n\t\t\tentries <- e\n`, "\t\t\t\tselect {\n\t\t\t\tcase errors <- err:\n\t\t\t\tdefault:\n\t\t\t\t}\n\t\t\t}\n\t\t\tentries <- e\n", "STATE/non-blocking-send")
	gffTail := `\tsequence\.Sequence = sequenceBuffer\.String\(\)\n\tsequence\.Meta = meta\n\n\treturn sequence\n\}\n`
	fire("C14", "sequence-text-stored-into-a-copy", "io/gff/gff.go", gffTail, "\treturn withText(sequence, sequenceBuffer.String(), meta)\n}\n\nfunc withText(sequence poly.Sequence, bases string, meta poly.Meta) poly.Sequence {\n\tsequence.Sequence = bases\n\tsequence.Meta = meta\n\treturn sequence\n}\n", "STATE/parent receives the sequence text")
	silent("C14", "sequence-text-stored-through-a-pointer", "io/gff/gff.go", gffTail, "\tfillText(&sequence, sequenceBuffer.String(), meta)\n\treturn sequence\n}\n\nfunc fillText(sequence *poly.Sequence, bases string, meta poly.Meta) {\n\tsequence.Sequence = bases\n\tsequence.Meta = meta\n}\n")
	fire("C09", "seen-hashes-searched-by-bisection", cl, `\t\t\tfor _, existingSeqhash := range existingSeqhashes \{\n\t\t\t\tif existingSeqhash == seqhashConstruct \{\n\t\t\t\t\texists = true\n\t\t\t\t\}\n\t\t\t\}\n`,
		"\t\t\tposition := sort.SearchStrings(existingSeqhashes, seqhashConstruct)\n\t\t\texists = position < len(existingSeqhashes) && existingSeqhashes[position] == seqhashConstruct\n", "STATE/search-unsorted")
	fire("C15", "file-read-through-a-size-limit", pj, `(?s)"encoding/json"\n(.*?)\tfile, _ := ioutil\.ReadFile\(path\)\n`,
		"\"encoding/json\"\n\t\"io\"\n\t\"os\"\n${1}\thandle, _ := os.Open(path)\n\tfile, _ := ioutil.ReadAll(io.LimitReader(handle, 1<<20))\n\thandle.Close()\n", "STATE/truncating-read")
	pm := "primers/primers.go"
	fire("C17", "bans-checked-by-literals-over-the-range-variable", pm, `\tdebruijn := NucleobaseDeBruijnSequence\(maxSubSequence\)\n\tfor barcodeNum := 0;`,
		"\tdebruijn := NucleobaseDeBruijnSequence(maxSubSequence)\n\tfor _, bannedSequence := range bannedSequences {\n\t\tbannedFunctions = append(bannedFunctions, func(barcode string) bool { return !strings.Contains(barcode, bannedSequence) })\n\t}\n\tfor barcodeNum := 0;", "STATE/loopvar-capture")
	silent("C17", "bans-checked-by-literals-over-a-copy", pm, `\tdebruijn := NucleobaseDeBruijnSequence\(maxSubSequence\)\n\tfor barcodeNum := 0;`,
		"\tdebruijn := NucleobaseDeBruijnSequence(maxSubSequence)\n\tfor _, bannedSequence := range bannedSequences {\n\t\tban := bannedSequence\n\t\tbannedFunctions = append(bannedFunctions, func(barcode string) bool { return !strings.Contains(barcode, ban) })\n\t}\n\tfor barcodeNum := 0;")
	fire("C20", "gzip-reader-pooled-while-parser-runs", "io/uniprot/uniprot.go", `(?s)import \(\n(.*?)\nfunc Read\((.*?)\tgo Parse\(unzippedBytes, entries, decoderErrors\)\n`,
		"import (\n\t\"sync\"\n${1}\nvar gzipReaders sync.Pool\n\nfunc Read(${2}\tdefer gzipReaders.Put(unzippedBytes)\n\tgo Parse(unzippedBytes, entries, decoderErrors)\n", "STATE/pool-to-goroutine")
	onceFirst := "var palindromeOnce sync.Once\nvar palindromeOfFirst bool\n\nfunc CutWithEnzyme(seq Part, directional bool, enzyme Enzyme) []Fragment {\n${1}\tpalindromeOnce.Do(func() { palindromeOfFirst = checks.IsPalindromic(enzyme.RecognitionSite) })\n\tpalindromic := palindromeOfFirst\n"
	fire("C10", "palindrome-decided-once-for-the-first-enzyme", cl, cutHead, onceFirst, "STATE/scratch")
	fire("C10", "palindrome-looked-up-by-name-stored-by-site", cl, cutHead, "var palindromeMemo sync.Map\n\nfunc CutWithEnzyme(seq Part, directional bool, enzyme Enzyme) []Fragment {\n${1}\tvar palindromic bool\n\tif known, ok := palindromeMemo.Load(enzyme.Name); ok {\n\t\tpalindromic = known.(bool)\n\t} else {\n\t\tpalindromic = checks.IsPalindromic(enzyme.RecognitionSite)\n\t\tpalindromeMemo.Store(enzyme.RecognitionSite, palindromic)\n\t}\n", "STATE/memo-key")
	fire("C05", "letters-cut-to-a-byte-before-the-alphabet-test", sh, `!strings\.Contains\("ATUGCYRSWKMBDHVNZ", string\(char\)\)`, `strings.IndexByte("ATUGCYRSWKMBDHVNZ", byte(char)) < 0`, "GUARD/alphabet test for DNA")
	fire("C15", "html-escapes-undone-in-the-written-document", pj, `(?s)"encoding/json"\n(.*?)\tfile, _ := json\.MarshalIndent\(sequence, "", " "\)\n`,
		"\"bytes\"\n\t\"encoding/json\"\n${1}\tfile, _ := json.MarshalIndent(sequence, \"\", \" \")\n\tfile = bytes.ReplaceAll(file, []byte(\"\\\\u003e\"), []byte(\">\"))\n", "WRAPPERS/JSON text is not edited")
	fire("C14", "single-hash-lines-skipped", "io/gff/gff.go", `strings\.HasPrefix\(line, "##"\)`, `strings.HasPrefix(line, "#")`, "FIELDMAP/Parse:feature lines")
	byIndex := func(bound string) string {
		return "\t\tfor letterIndex := 0; " + bound + "; letterIndex++ {\n\t\t\tletter := sequence[letterIndex : letterIndex+1]\n\t\t\tif !strings.Contains(\"ATUGCYRSWKMBDHVNZ\", letter) {\n\t\t\t\treturn \"\", errors.New(\"Only letters ATUGCYRSWKMBDHVNZ are allowed for DNA/RNA. Got letter: \" + letter)\n"
	}
	alphaLoop := `\t\tfor _, char := range sequence \{\n\t\t\tif !strings\.Contains\("ATUGCYRSWKMBDHVNZ", string\(char\)\) \{\n\t\t\t\treturn "", errors\.New\("Only letters ATUGCYRSWKMBDHVNZ are allowed for DNA/RNA\. Got letter: " \+ string\(char\)\)\n`
	fire("C05", "last-letter-never-validated", sh, alphaLoop, byIndex("letterIndex+1 < len(sequence)"), "GUARD/alphabet test for DNA")
	silent("C05", "letters-validated-by-index", sh, alphaLoop, byIndex("letterIndex < len(sequence)"))
	pooledList := func(start string) string {
		return "var seenHashesPool = sync.Pool{New: func() interface{} { return new([]string) }}\n\nfunc getConstructs(c chan string, constructSequences chan []Part) {\n${1}\tpooledHashes := seenHashesPool.Get().(*[]string)\n\texistingSeqhashes := " + start + "\n\tdefer func() {\n\t\t*pooledHashes = existingSeqhashes\n\t\tseenHashesPool.Put(pooledHashes)\n\t}()\n"
	}
	collectorHead := `(?s)func getConstructs\(c chan string, constructSequences chan \[\]Part\) \{\n(.*?)\tvar existingSeqhashes \[\]string\n`
	fire("C09", "seen-hashes-list-pooled-with-its-content", cl, collectorHead, pooledList("*pooledHashes"), "STATE/pool-content")
	silent("C09", "seen-hashes-list-pooled-and-cut-to-zero", cl, collectorHead, pooledList("(*pooledHashes)[:0]"))
	fire("C16", "listing-viewed-as-a-string-without-a-copy", "io/rebase/rebase.go", `(?s)"io/ioutil"\n\t"strings"\n(.*?)\trebase := string\(file\)\n`, "\"io/ioutil\"\n\t\"strings\"\n\t\"unsafe\"\n${1}\trebase := *(*string)(unsafe.Pointer(&file))\n", "STATE/unsafe-alias")
	readLoop := func(onError string) string {
		return "\"bufio\"\n\t\"bytes\"\n${1}\tvar lines []string\n\tlineReader := bufio.NewReader(bytes.NewReader([]byte(gff)))\n\tfor {\n\t\tline, err := lineReader.ReadString('\\n')\n\t\tif err != nil {\n" + onError + "\t\t\tbreak\n\t\t}\n\t\tlines = append(lines, strings.TrimSuffix(line, \"\\n\"))\n\t}\n"
	}
	gffLines := `(?s)"bytes"\n(.*?)\tlines := strings\.Split\(gff, "\\n"\)\n`
	fire("C14", "lines-read-until-the-first-error", "io/gff/gff.go", gffLines, readLoop(""), "STATE/last-line")
	silent("C14", "lines-read-keeping-the-unterminated-one", "io/gff/gff.go", gffLines, readLoop("\t\t\tlines = append(lines, line)\n"))
	// round 13
	gb := "io/genbank/genbank.go"
	fire("C02", "strong-and-weak-codes-complemented-into-each-other", "transform/transform.go", `(?s)83:  83,(.*?)87:  87,`, "83:  87,${1}87:  83,", "TERM-EVAL/prerequisite C11")
	locusLine := `(?s)"bytes"\n(.*?)\tlocusString := "LOCUS       " \+ locusData \+ "\\n"\n`
	fire("C03", "locus-name-cut-to-its-column", gb, locusLine, "\"bytes\"\n\t\"fmt\"\n${1}\tlocusString := fmt.Sprintf(\"LOCUS       %-16.16s%s\\n\", locus.Name, locusData[len(locus.Name):])\n", "STATE/truncating-format")
	silent("C03", "locus-name-padded-to-its-column", gb, locusLine, "\"bytes\"\n\t\"fmt\"\n${1}\tlocusString := fmt.Sprintf(\"LOCUS       %-1s%s\\n\", locus.Name, locusData[len(locus.Name):])\n")
	buffered := func(flush string) string {
		return "\"bufio\"\n\t\"bytes\"\n\t\"os\"\n${1}\tgbk := Build(sequence)\n\tfile, err := os.Create(path)\n\tif err != nil {\n\t\treturn\n\t}\n\tdefer file.Close()\n\tout := bufio.NewWriter(file)\n\t_, _ = out.Write(gbk)\n" + flush
	}
	gbWrite := `(?s)"bytes"\n(.*?)\tgbk := Build\(sequence\)\n\t_ = ioutil\.WriteFile\(path, gbk, 0644\)\n`
	fire("C03", "file-written-through-a-buffer-never-flushed", gb, gbWrite, buffered(""), "STATE/unflushed-writer")
	silent("C03", "file-written-through-a-buffer-and-flushed", gb, gbWrite, buffered("\t_ = out.Flush()\n"))
	up := "io/uniprot/uniprot.go"
	fire("C20", "inflated-stream-capped-by-the-file-size", up, `\tgo Parse\(unzippedBytes, entries, decoderErrors\)\n`, "\tinfo, err := xmlFile.Stat()\n\tif err != nil {\n\t\treturn entries, decoderErrors, err\n\t}\n\tgo Parse(io.LimitReader(unzippedBytes, info.Size()*100), entries, decoderErrors)\n", "STATE/truncating-read")
	fire("C20", "tokenizer-error-tested-never-reported", up, `\t\t\tif err\.Error\(\) == "EOF" \{\n\t\t\t\tbreak\n\t\t\t\}\n\t\t\terrors <- err\n\t\t\tbreak\n`, "\t\t\tbreak\n", "LOOPEXIT/only io.EOF")
	rotHead := `\trotationIndex := boothLeastRotation\(sequence\)\n`
	fire("C12", "two-letter-sequences-returned-as-given", sh, rotHead, "\tif len(sequence) <= 2 {\n\t\treturn sequence\n\t}\n\trotationIndex := boothLeastRotation(sequence)\n", "TERM/RotateSequence")
	fire("C14", "minus-strand-read-as-complement", "io/gff/gff.go", `\t\t\trecord\.Strand = fields\[6\]\n`, "\t\t\trecord.Strand = fields[6]\n\t\t\trecord.SequenceLocation.Complement = record.Strand == \"-\"\n", "COORD/Parse:location is the plain span")
	fire("C11", "unexpanded-tail-copied-as-typed", "transform/variants/variants.go", `(?s)\tfor _, s := range strings\.ToUpper\(seq\) \{\n(.*?)\tcartesianProducts := cartRune\(seqVariantList\.\.\.\)\n\tfor _, product := range cartesianProducts \{\n\t\tseqVariants = append\(seqVariants, string\(product\)\)\n`,
		"\tupperSeq := strings.ToUpper(seq)\n\tfor _, s := range upperSeq {\n${1}\tsharedFrom := strings.LastIndexAny(upperSeq, \"RYMKSWHBVDN\") + 1\n\tsharedSuffix := seq[sharedFrom:]\n\tcartesianProducts := cartRune(seqVariantList[:sharedFrom]...)\n\tfor _, product := range cartesianProducts {\n\t\tseqVariants = append(seqVariants, string(product)+sharedSuffix)\n", "SHAPE/DEPEND")
	fire("C17", "window-moved-once-per-ban", pm, `\t\t\tfor strings\.Contains\(debruijn\[start:end\], bannedSequence\) \{\n`, "\t\t\tif strings.Contains(debruijn[start:end], bannedSequence) {\n", "RETEST/shift after strings.Contains")
	remembered := func(keyFields, keyValues string) string {
		return "\"strings\"\n\t\"sync\"\n${1}type meltingConditions struct {\n\tsequence string\n\t" + keyFields + " float64\n}\n\nvar santaLuciaResults sync.Map\n\nfunc SantaLucia(sequence string, primerConcentration, saltConcentration, magnesiumConcentration float64) (meltingTemp, dH, dS float64) {\n\tconditions := meltingConditions{sequence, " + keyValues + "}\n\tif result, found := santaLuciaResults.Load(conditions); found {\n\t\tvalues := result.([3]float64)\n\t\treturn values[0], values[1], values[2]\n\t}\n\tdefer func() { santaLuciaResults.Store(conditions, [3]float64{meltingTemp, dH, dS}) }()\n"
	}
	slHead := `(?s)"strings"\n(.*?)func SantaLucia\(sequence string, primerConcentration, saltConcentration, magnesiumConcentration float64\) \(meltingTemp, dH, dS float64\) \{\n`
	fire("C19", "results-remembered-without-the-magnesium", pm, slHead, remembered("primerConcentration, saltConcentration", "primerConcentration, saltConcentration"), "STATE/memo-key")
	silent("C19", "results-remembered-under-every-argument", pm, slHead, remembered("primerConcentration, saltConcentration, magnesiumConcentration", "primerConcentration, saltConcentration, magnesiumConcentration"))
	// round 14
	fire("C05", "type-looked-up-inside-a-text", sh, `sequenceType != "DNA" && sequenceType != "RNA" && sequenceType != "PROTEIN"`, `!strings.Contains("DNA, RNA, or PROTEIN", sequenceType)`, "GUARD/rejects unknown sequenceType")
	fire("C02", "single-operand-returned-before-the-strand-is-looked-at", "poly.go", `\t\} else \{\n\n\t\tfor _, subLocation := range location\.SubLocations \{`, "\t} else if len(location.SubLocations) == 1 {\n\t\treturn getFeatureSequence(feature, location.SubLocations[0])\n\t} else {\n\n\t\tfor _, subLocation := range location.SubLocations {", "TERM-EVAL/complement")
	silent("C02", "single-forward-operand-returned-directly", "poly.go", `\t\} else \{\n\n\t\tfor _, subLocation := range location\.SubLocations \{`, "\t} else if len(location.SubLocations) == 1 && !location.Complement {\n\t\treturn getFeatureSequence(feature, location.SubLocations[0])\n\t} else {\n\n\t\tfor _, subLocation := range location.SubLocations {")
	fire("C17", "ban-dropped-from-the-list-being-ranged-over", pm, `\t\tfor _, bannedSequence := range bannedSequences \{\n`, "\t\tfor banIndex, bannedSequence := range bannedSequences {\n\t\t\tif !strings.Contains(debruijn[start:], bannedSequence) && !strings.Contains(debruijn[start:], transform.ReverseComplement(bannedSequence)) {\n\t\t\t\tbannedSequences = append(bannedSequences[:banIndex], bannedSequences[banIndex+1:]...)\n\t\t\t\tcontinue\n\t\t\t}\n", "STATE/range-delete")
	pooledRunes := func(tail string) string {
		return "import (\n\t\"strings\"\n\t\"sync\"\n)\n\nvar runeBuffers = sync.Pool{New: func() interface{} { return new([]rune) }}\n${1}\tbuffer := runeBuffers.Get().(*[]rune)\n\tif cap(*buffer) < length {\n\t\t*buffer = make([]rune, length)\n\t}\n\tnewString := (*buffer)[:length]\n\tfor _, base := range complementString {\n\t\tlength--\n\t\tnewString[length] = base\n\t}\n" + tail
	}
	rcBody := `(?s)import "strings"\n(.*?)\tnewString := make\(\[\]rune, length\)\n\tfor _, base := range complementString \{\n\t\tlength--\n\t\tnewString\[length\] = base\n\t\}\n\treturn string\(newString\)\n`
	fire("C11", "scratch-runes-put-back-before-they-are-copied", "transform/transform.go", rcBody, pooledRunes("\truneBuffers.Put(buffer)\n\treturn string(newString)\n"), "STATE/pool-use-after-put")
	silent("C11", "scratch-runes-copied-before-they-are-put-back", "transform/transform.go", rcBody, pooledRunes("\treversed := string(newString)\n\truneBuffers.Put(buffer)\n\treturn reversed\n"))
	// round 15
	inPlace := func(bound string) string {
		return "\tbases := []rune(sequence)\n\tlast := len(bases) - 1\n\tfor index := 0; " + bound + "; index++ {\n\t\tbases[index], bases[last-index] = bases[last-index], bases[index]\n\t}\n\treturn string(bases)\n}\n\n// ComplementBase"
	}
	revBody := `(?s)\tlength := len\(sequence\)\n\tnewString := make\(\[\]rune, length\)\n\tfor _, base := range sequence \{\n\t\tlength--\n\t\tnewString\[length\] = base\n\t\}\n\treturn string\(newString\)\n\}\n\n// ComplementBase`
	fire("C11", "reversed-in-place-stopping-short-of-the-centre", "transform/transform.go", revBody, inPlace("index < last/2"), "STATE/swap-reversal")
	silent("C11", "reversed-in-place-up-to-the-centre", "transform/transform.go", revBody, inPlace("index < len(bases)/2"))
	// round 15, second group: the STATE rules that match nothing on today's tree
	forwarder := func(before, inside string) string {
		return "import (\n\t\"sync\"\n${1}\tdecoder := xml.NewDecoder(r)\n\tvar forwarding sync.WaitGroup\n${2}" + before + "\t\t\tgo func() {\n" + inside + "\t\t\t\tdefer forwarding.Done()\n\t\t\t\terrors <- err\n\t\t\t}()\n\t\t\tbreak\n${3}\tforwarding.Wait()\n\tclose(entries)\n"
	}
	upParse := `(?s)import \(\n(.*?)\tdecoder := xml\.NewDecoder\(r\)\n(.*?)\t\t\terrors <- err\n\t\t\tbreak\n(.*?)\tclose\(entries\)\n`
	fire("C20", "error-forwarder-counts-itself-in", up, upParse, forwarder("", "\t\t\t\tforwarding.Add(1)\n"), "STATE/add-inside-goroutine")
	crosswise := func(args string) string {
		return "\tif sequenceType == \"RNA\" {\n\t\tdnaSeqhash, err := Hash(strings.ReplaceAll(sequence, \"U\", \"T\"), \"DNA\", " + args + ")\n\t\tif err != nil {\n\t\t\treturn \"\", err\n\t\t}\n\t\treturn \"v1_R\" + strings.TrimPrefix(dnaSeqhash, \"v1_D\"), nil\n\t}\n"
	}
	rnaStep := `\tif sequenceType == "RNA" \{\n\t\tsequence = strings\.ReplaceAll\(sequence, "U", "T"\)\n\t\}\n`
	fire("C05", "flags-handed-over-crosswise", sh, rnaStep, crosswise("doubleStranded, circular"), "STATE/swapped-arguments")
	silent("C05", "flags-handed-over-in-order", sh, rnaStep, crosswise("circular, doubleStranded"))
	pjParse := `(?s)func Parse\(file \[\]byte\) poly\.Sequence \{\n(.*?)\tsequence\.Features = \[\]poly\.Feature\{\}\n`
	fire("C15", "features-collected-in-a-package-level-list", pj, pjParse, "var featureBuffer = []poly.Feature{}\n\nfunc Parse(file []byte) poly.Sequence {\n${1}\tsequence.Features = featureBuffer[:0]\n", "STATE/global-backing")
	silent("C15", "features-collected-in-a-capacity-limited-cut", pj, pjParse, "var featureBuffer = []poly.Feature{}\n\nfunc Parse(file []byte) poly.Sequence {\n${1}\tsequence.Features = featureBuffer[:0:0]\n")
	twoAtomics := "import (\n\t\"strings\"\n\t\"sync/atomic\"\n)\n\nvar (\n\tlastSequence          atomic.Value\n\tlastReverseComplement atomic.Value\n)\n${1}func ReverseComplement(sequence string) string {\n\tif last, ok := lastSequence.Load().(string); ok && last == sequence {\n\t\treturn lastReverseComplement.Load().(string)\n\t}\n${2}\treverseComplement := string(newString)\n\tlastReverseComplement.Store(reverseComplement)\n\tlastSequence.Store(sequence)\n\treturn reverseComplement\n}\n\n// Complement takes"
	fire("C11", "last-call-remembered-in-two-atomics", "transform/transform.go", `(?s)import "strings"\n(.*?)func ReverseComplement\(sequence string\) string \{\n(.*?)\treturn string\(newString\)\n\}\n\n// Complement takes`, twoAtomics, "STATE/atomic-pair")
}

// positive examples for rules added in the later rounds (17-22), each with a sound sibling where one exists
func init() {
	sh := "seqhash/seqhash.go"
	pm := "primers/primers.go"
	up := "io/uniprot/uniprot.go"
	pj := "io/polyjson/polyjson.go"
	cd := "transform/codon/codon.go"
	fire := func(prop, name, file, find, repl, expect string) {
		addVariant(variant{Prop: prop, Name: name, File: file, Find: find, Replace: repl, Expect: expect})
	}
	silent := func(prop, name, file, find, repl string) {
		addVariant(variant{Prop: prop, Name: name, File: file, Find: find, Replace: repl, Silent: true})
	}
	tmLine := `\tmeltingTemp = dH\*1000/\(dS\+gasConstant\*math\.Log\(primerConcentration/symmetryFactor\)\) - 273\.15\n`
	fire("C19", "melting-temperature-cut-off-at-zero", pm, tmLine, "\tmeltingTemp = math.Max(dH*1000/(dS+gasConstant*math.Log(primerConcentration/symmetryFactor))-273.15, 0)\n", "TERM-TM/Tm")
	folded := func(buffer string) string {
		return "func upperCase(sequence string) string {\n" + buffer + "\tfor i, base := range folded {\n\t\tif 'a' <= base && base <= 'z' {\n\t\t\tfolded[i] = base - ('a' - 'A')\n\t\t}\n\t}\n\treturn string(folded)\n}\n\n// SantaLucia calculates${1}\tsequence = upperCase(sequence)\n"
	}
	slHead := `(?s)// SantaLucia calculates(.*?float64\) \{\n)\tsequence = strings\.ToUpper\(sequence\)\n`
	fire("C19", "oligo-folded-in-a-64-byte-array", pm, slHead, folded("\tvar buffer [64]byte\n\tfolded := buffer[:copy(buffer[:], sequence)]\n"), "STATE/truncating-copy")
	silent("C19", "oligo-folded-in-its-own-copy", pm, slHead, folded("\tfolded := []byte(sequence)\n"))
	fire("C19", "oligo-folded-without-a-and-z", pm, slHead, strings.Replace(strings.Replace(folded("\tfolded := []byte(sequence)\n"), "'a' <= base", "'a' < base", 1), "base <= 'z'", "base < 'z'", 1), "STATE/strict-letter-range")
	bans := func(list string) string {
		return "\tdebruijn := NucleobaseDeBruijnSequence(maxSubSequence)\n\tfitting := " + list + "\n\tfor _, bannedSequence := range bannedSequences {\n\t\tif len(bannedSequence) <= length {\n\t\t\tfitting = append(fitting, bannedSequence)\n\t\t}\n\t}\n\tbannedSequences = fitting\n"
	}
	deb := `\tdebruijn := NucleobaseDeBruijnSequence\(maxSubSequence\)\n`
	fire("C17", "bans-filtered-in-the-callers-list", pm, deb, bans("bannedSequences[:0]"), "STATE/filter-in-place")
	silent("C17", "bans-filtered-into-a-fresh-list", pm, deb, bans("make([]string, 0, len(bannedSequences))"))
	rot := `(?s)\tconcatenatedSequence := sequenceBuilder\.String\(\)\n\tsequence = concatenatedSequence\[rotationIndex : rotationIndex\+len\(sequence\)\]\n\treturn sequence\n`
	fire("C12", "rotation-written-byte-by-byte-as-runes", sh, rot, "\tconcatenatedSequence := sequenceBuilder.String()\n\tvar turned strings.Builder\n\tfor i := 0; i < len(sequence); i++ {\n\t\tturned.WriteRune(rune(sequence[(rotationIndex+i)%len(sequence)]))\n\t}\n\t_ = concatenatedSequence\n\treturn turned.String()\n", "STATE/byte-widened")
	silent("C12", "rotation-written-byte-by-byte", sh, rot, "\tconcatenatedSequence := sequenceBuilder.String()\n\tvar turned strings.Builder\n\tfor i := 0; i < len(sequence); i++ {\n\t\tturned.WriteByte(concatenatedSequence[rotationIndex+i])\n\t}\n\treturn turned.String()\n")
	fire("C20", "entries-without-an-accession-are-skipped", up, `\t\t\tentries <- e\n`, "\t\t\tif len(e.Accession) == 0 {\n\t\t\t\tcontinue\n\t\t\t}\n\t\t\tentries <- e\n", "GUARD/entry send")
	fire("C15", "linear-cleared-when-circular", pj, `\tlegacyFeatures := sequence\.Features\n`, "\tif sequence.Meta.Locus.Circular {\n\t\tsequence.Meta.Locus.Linear = false\n\t}\n\tlegacyFeatures := sequence.Features\n", "RELINK/Parse:decoded fields")
	fire("C05", "type-letter-cut-before-the-type-is-checked", sh, `\t// By definition, Seqhashes are of uppercase sequences\n\tsequence = strings\.ToUpper\(sequence\)\n`, "\ttypeLetter := sequenceType[:1]\n\t_ = typeLetter\n\tsequence = strings.ToUpper(sequence)\n", "GUARD/type text")
	lookup := `\t\t\taminoAcids\.WriteString\(translationTable\[strings\.ToUpper\(currentCodon\.String\(\)\)\]\)\n`
	silent("C06", "codon-upper-cased-only-when-it-has-lower-case", cd, `(?s)`+lookup+`(.*?)\n// Optimize takes`, "\t\t\taminoAcids.WriteString(translationTable[upperCaseCodon(currentCodon.String())])\n${1}\nfunc upperCaseCodon(codon string) string {\n\tfor i := 0; i < len(codon); i++ {\n\t\tif codon[i] >= 0x80 || ('a' <= codon[i] && codon[i] <= 'z') {\n\t\t\treturn strings.ToUpper(codon)\n\t\t}\n\t}\n\treturn codon\n}\n\n// Optimize takes")
}

// positive examples for the rules of round 23
func init() {
	sh := "seqhash/seqhash.go"
	gb := "io/genbank/genbank.go"
	up := "io/uniprot/uniprot.go"
	cd := "transform/codon/codon.go"
	fire := func(prop, name, file, find, repl, expect string) {
		addVariant(variant{Prop: prop, Name: name, File: file, Find: find, Replace: repl, Expect: expect})
	}
	silent := func(prop, name, file, find, repl string) {
		addVariant(variant{Prop: prop, Name: name, File: file, Find: find, Replace: repl, Silent: true})
	}
	name := `\tlocus\.Name = filteredLocusSplit\[1\]\n`
	fire("C01", "locus-name-trimmed-with-a-text-as-cutset", gb, name, "\tlocus.Name = strings.TrimLeft(filteredLocusSplit[1], \"ds-\")\n", "STATE/cutset-as-prefix")
	silent("C01", "locus-name-trimmed-of-a-prefix", gb, name, "\tlocus.Name = strings.TrimPrefix(filteredLocusSplit[1], \"ds-\")\n")
	booth := `func boothLeastRotation\(sequence string\) int \{\n`
	table := func(guard string) string {
		return "func boothLeastRotation(sequence string) int {\n\tvar present [128]bool\n\tfor i := 0; i < len(sequence); i++ {\n" + guard + "\t\tpresent[sequence[i]] = true\n\t}\n\t_ = present\n"
	}
	fire("C12", "letters-marked-in-a-128-entry-table", sh, booth, table(""), "STATE/small-table-by-byte")
	silent("C12", "ascii-letters-marked-in-a-128-entry-table", sh, booth, table("\t\tif sequence[i] >= 128 {\n\t\t\tcontinue\n\t\t}\n"))
	fire("C20", "tokenizer-error-asserted-to-be-a-syntax-error", up, `\t\t\terrors <- err\n\t\t\tbreak\n`, "\t\t\terrors <- err.(*xml.SyntaxError)\n\t\t\tbreak\n", "STATE/unchecked-error-assert")
	freq := `(?s)func getCodonFrequency\(sequence string\) map\[string\]int \{\n\n\tcodonFrequencyHashMap := map\[string\]int\{\}\n`
	fire("C08", "codon-counts-kept-in-a-package-level-map", cd, freq, "var codonCounts = map[string]int{}\n\nfunc getCodonFrequency(sequence string) map[string]int {\n\n\tcodonFrequencyHashMap := codonCounts\n\tfor codon := range codonFrequencyHashMap {\n\t\tdelete(codonFrequencyHashMap, codon)\n\t}\n", "STATE/scratch-returned")
	share := `\t\t\tcodonPercentage := float64\(codon\.Weight\) / float64\(codonOccurenceSum\)\n(.*\n)*?\t\t\tif codonPercentage > 0\.10 \{\n`
	fire("C07", "share-in-whole-per-cent", cd, share, "\t\t\tcodonPercentage := 100 * codon.Weight / codonOccurenceSum\n${1}\t\t\tif codonPercentage > 10 {\n", "TERM-CHOOSER/eligible")
	silent("C07", "share-in-per-cent", cd, share, "\t\t\tcodonPercentage := 100 * float64(codon.Weight) / float64(codonOccurenceSum)\n${1}\t\t\tif codonPercentage > 10 {\n")
}

// positive examples for the rules of rounds 24 and 25
func init() {
	gb := "io/genbank/genbank.go"
	pj := "io/polyjson/polyjson.go"
	pm := "primers/primers.go"
	fire := func(prop, name, file, find, repl, expect string) {
		addVariant(variant{Prop: prop, Name: name, File: file, Find: find, Replace: repl, Expect: expect})
	}
	silent := func(prop, name, file, find, repl string) {
		addVariant(variant{Prop: prop, Name: name, File: file, Find: find, Replace: repl, Silent: true})
	}
	buildHead := `func Build\(sequence poly\.Sequence\) \[\]byte \{\n\tvar gbkString bytes\.Buffer\n`
	fire("C03", "written-keyword-deleted-from-the-records-map", gb, buildHead, "func Build(sequence poly.Sequence) []byte {\n\tvar gbkString bytes.Buffer\n\tdelete(sequence.Meta.Other, \"DBLINK\")\n", "NOSHARED/Build")
	relink := `\tfor _, feature := range legacyFeatures \{\n\t\tsequence\.AddFeature\(&feature\)\n`
	fire("C15", "empty-qualifiers-deleted-while-reading", pj, relink, "\tfor _, feature := range legacyFeatures {\n\t\tfor key, value := range feature.Attributes {\n\t\t\tif value == \"\" {\n\t\t\t\tdelete(feature.Attributes, key)\n\t\t\t}\n\t\t}\n\t\tsequence.AddFeature(&feature)\n", "RELINK/Parse:decoded fields")
	silent("C15", "qualifiers-counted-while-reading", pj, relink, "\tqualifiers := 0\n\tfor _, feature := range legacyFeatures {\n\t\tfor range feature.Attributes {\n\t\t\tqualifiers++\n\t\t}\n\t\tsequence.AddFeature(&feature)\n")
	fire("C11", "palindrome-test-on-a-trimmed-copy", "checks/checks.go", `import "github.com/TimothyStiles/poly/transform"\n(?s)(.*?)\treturn sequence == transform\.ReverseComplement\(sequence\)\n`, "import (\n\t\"strings\"\n\n\t\"github.com/TimothyStiles/poly/transform\"\n)\n${1}\tsequence = strings.Trim(sequence, \"Nn\")\n\treturn sequence == transform.ReverseComplement(sequence)\n", "TERM/IsPalindromic")
	last := `\tif sequence\[len\(sequence\)-1\] == 'A' \|\| sequence\[len\(sequence\)-1\] == 'T' \{\n`
	fire("C19", "terminal-base-looked-up-with-index-above-zero", pm, last, "\tif strings.IndexByte(\"AT\", sequence[len(sequence)-1]) > 0 {\n", "STATE/first-member-missed")
	silent("C19", "terminal-base-looked-up-with-index-from-zero", pm, last, "\tif strings.IndexByte(\"AT\", sequence[len(sequence)-1]) >= 0 {\n")
	fire("C13", "name-taken-as-second-piece-of-the-header", "io/fasta/fasta.go", `\t\t\tname = line\[1:\]\n\t\t\tstart = false\n`, "\t\t\tname = strings.Split(line, \">\")[1]\n\t\t\tstart = false\n", "TERM/parser:name")
}

// positive and negative examples for the rules of round 31: a memo key that holds only the length of a list, and a
// memo inside the package whose result no caller edits
func init() {
	cd := "transform/codon/codon.go"
	fire := func(prop, name, file, find, repl, expect string) {
		addVariant(variant{Prop: prop, Name: name, File: file, Find: find, Replace: repl, Expect: expect})
	}
	silent := func(prop, name, file, find, repl string) {
		addVariant(variant{Prop: prop, Name: name, File: file, Find: find, Replace: repl, Silent: true})
	}
	gen := `func \(codonTable Table\) generateTranslationTable\(\) map\[string\]string \{\n\tvar translationMap = make\(map\[string\]string\)\n((?:.*\n)*?)\treturn translationMap\n`
	memo := func(key string) string {
		return "var translationTables = map[string]map[string]string{}\n\nfunc (codonTable Table) generateTranslationTable() map[string]string {\n" + key + "\tif cached, ok := translationTables[key]; ok {\n\t\treturn cached\n\t}\n\tvar translationMap = make(map[string]string)\n${1}\ttranslationTables[key] = translationMap\n\treturn translationMap\n"
	}
	fullKey := "\tvar spelled strings.Builder\n\tfor _, aminoAcid := range codonTable.AminoAcids {\n\t\tfor _, codon := range aminoAcid.Codons {\n\t\t\tspelled.WriteString(codon.Triplet + \"=\" + aminoAcid.Letter + \";\")\n\t\t}\n\t}\n\tkey := spelled.String()\n"
	fire("C07", "translation-map-remembered-by-start-codons-and-table-length", cd, gen, memo("\tkey := strings.Join(codonTable.StartCodons, \",\") + strings.Repeat(\"x\", len(codonTable.AminoAcids))\n"), "STATE/memo-key")
	silent("C07", "translation-map-remembered-by-every-codon-and-only-read", cd, gen, memo(fullKey))
	both := `(?s)\ttranslationTable := codonTable\.generateTranslationTable\(\)\n(.*?)` + strings.Replace(gen, "((?:.*\\n)*?)", "((?-s:(?:.*\\n)*?))", 1)
	fire("C07", "remembered-translation-map-edited-by-its-caller", cd, both, "\ttranslationTable := codonTable.generateTranslationTable()\n\ttranslationTable[\"NNN\"] = \"X\"\n${1}"+strings.Replace(memo(fullKey), "${1}", "${2}", 1), "STATE/memo-alias")
}

// round 31: the isoschizomer names rewritten after the split
func init() {
	rb := "io/rebase/rebase.go"
	split := `\t\t\tenzyme\.Isoschizomers = strings\.Split\(line\[3:\], ","\)\n`
	loop := func(value string) string {
		return "\t\t\tnames := strings.Split(line[3:], \",\")\n\t\t\tfor i, name := range names {\n\t\t\t\tnames[i] = " + value + "\n\t\t\t}\n\t\t\tenzyme.Isoschizomers = names\n"
	}
	addVariant(variant{Prop: "C16", Name: "isoschizomer-names-trimmed-after-the-split", File: rb, Find: split, Replace: loop("strings.TrimSpace(name)"), Expect: "FIELDMAP/<2>->Isoschizomers"})
	addVariant(variant{Prop: "C16", Name: "isoschizomer-names-stored-again-as-they-are", File: rb, Find: split, Replace: loop("name"), Silent: true})
}

// round 31: a decoded field overwritten with a rewritten form of itself
func init() {
	pj := "io/polyjson/polyjson.go"
	head := `(?s)\t"io/ioutil"\n(.*?)\tlegacyFeatures := sequence\.Features\n`
	addVariant(variant{Prop: "C15", Name: "date-upper-cased-while-reading", File: pj, Find: head, Replace: "\t\"io/ioutil\"\n\t\"strings\"\n${1}\tsequence.Meta.Date = strings.ToUpper(sequence.Meta.Date)\n\tlegacyFeatures := sequence.Features\n", Expect: "RELINK/decoded fields are returned as read"})
	addVariant(variant{Prop: "C15", Name: "date-upper-cased-into-a-local-while-reading", File: pj, Find: head, Replace: "\t\"io/ioutil\"\n\t\"strings\"\n${1}\tstamp := strings.ToUpper(sequence.Meta.Date)\n\t_ = stamp\n\tlegacyFeatures := sequence.Features\n", Silent: true})
}
