package main

// wrappers.go (K12): convenience functions must reach the decided core with the right plumbing,
// plus the small shared rules PREFIX, SCANCAP and NOSHARED (K6).

import (
	"fmt"
	"go/constant"
	"go/token"
	"sort"
	"strings"

	"golang.org/x/tools/go/ssa"
)

// singleReturnTerm returns the term of result k when f has exactly one return.
func singleReturnTerm(f *ssa.Function, k int) (*Term, *TermBuilder, bool) {
	tb := newTB(f)
	rets := returnsOf(f)
	if len(rets) != 1 || len(rets[0].Results) <= k {
		return nil, tb, false
	}
	return tb.T(rets[0].Results[k]), tb, true
}

// checkReturnIs: f's single return value k has exactly the given term.
func checkReturnIs(c *Ctx, rule, construct string, f *ssa.Function, k int, want, okWhy string) {
	if f == nil {
		c.missing(rule, construct, construct)
		return
	}
	c.useFn(f)
	got := "<several returns>"
	rets := returnsOf(f)
	ok := len(rets) == 1 && len(rets[0].Results) > k
	if ok {
		tb := newTB(f)
		tb.NoInline = true // wrappers are judged by the function they call, not by its body
		got = tb.T(rets[0].Results[k]).String()
	}
	c.check(ok && got == want, rule, construct, f.Pos(), okWhy, "returns "+short(got)+", want "+want)
}

// checkFileWrite: a Write(x, path) wrapper must put exactly data(x) into a truncated/created file.
// Accepted: ioutil.WriteFile/os.WriteFile(path, DATA, perm); DATA must be the term wantData.
func checkFileWrite(c *Ctx, rule, construct string, f *ssa.Function, pathParam int, wantData string) {
	if f == nil {
		c.missing(rule, construct, construct)
		return
	}
	c.useFn(f)
	tb := newTB(f)
	var wf []ssa.CallInstruction
	var others []string
	eachInstr(f, func(i ssa.Instruction) {
		if ci, ok := i.(ssa.CallInstruction); ok {
			n := calleeName(ci)
			switch n {
			case "io/ioutil.WriteFile", "os.WriteFile":
				wf = append(wf, ci)
			default:
				if strings.HasPrefix(n, "os.") || strings.HasPrefix(n, "(*os.File).") || strings.HasPrefix(n, "io.") || strings.HasPrefix(n, "bufio.") {
					others = append(others, n)
				}
			}
		}
	})
	if len(wf) != 1 || len(others) > 0 {
		c.bad(rule, construct, f.Pos(), fmt.Sprintf("expected exactly one ioutil.WriteFile/os.WriteFile (which creates or truncates); found %d, plus other file calls %v – a file opened without truncation keeps the stale tail of a longer previous file", len(wf), others))
		return
	}
	a := wf[0].Common().Args
	p, d := tb.T(a[0]), tb.T(a[1]).String()
	c.check(p.isParam(pathParam) && d == wantData, rule, construct, wf[0].Pos(), "WriteFile(path, "+wantData+", perm): whole output, file truncated", "writes "+short(d)+" to "+short(p.String())+", want "+wantData+" to the path parameter")
}

// lenLowerBound computes a lower bound for len(X) (X identified by term string) at block b from
// dominating branch conditions. Recognised atoms: len(X)==0, len(X)!=0, len(X)<k, k<len(X), k<=len(X), len(X)<=k, X=="" / X!="".
func lenLowerBound(tb *TermBuilder, b *ssa.BasicBlock, x string) int64 {
	lb := int64(0)
	lenx := "call[builtin:len](" + x + ")"
	for d := b; d.Idom() != nil; d = d.Idom() {
		p := d.Idom()
		ifi, ok := p.Instrs[len(p.Instrs)-1].(*ssa.If)
		if !ok || len(p.Succs) != 2 {
			continue
		}
		// which edge leads to d? need an edge that dominates d: succ s with s dominating b and s having p as only pred
		var truth, known bool
		for k, s := range p.Succs {
			if s.Dominates(b) && len(s.Preds) == 1 {
				truth, known = k == 0, true
			}
		}
		if !known || p.Succs[0] == p.Succs[1] {
			continue
		}
		t := tb.T(ifi.Cond)
		if t.Op != "binop" {
			continue
		}
		l, r := t.Args[0], t.Args[1]
		ls, rs := l.String(), r.String()
		lk, lok := l.constInt()
		rk, rok := r.constInt()
		up := func(v int64) {
			if v > lb {
				lb = v
			}
		}
		switch t.Name {
		case "==":
			// commutative sorting may put const first
			if (ls == lenx && rok && rk == 0) || (rs == lenx && lok && lk == 0) {
				if !truth {
					up(1)
				}
			}
			if (ls == x && r.isConst(`""`)) || (rs == x && l.isConst(`""`)) {
				if !truth {
					up(1)
				}
			}
		case "!=":
			if (ls == lenx && rok && rk == 0) || (rs == lenx && lok && lk == 0) || (ls == x && r.isConst(`""`)) || (rs == x && l.isConst(`""`)) {
				if truth {
					up(1)
				}
			}
		case "<":
			if ls == lenx && rok && !truth { // !(len < k) => len >= k
				up(rk)
			}
			if rs == lenx && lok && truth { // k < len => len >= k+1
				up(lk + 1)
			}
		case "<=":
			if rs == lenx && lok && truth { // k <= len
				up(lk)
			}
			if ls == lenx && rok && !truth { // !(len <= k) => len >= k+1
				up(rk + 1)
			}
		}
	}
	return lb
}

// checkPrefix (PREFIX): every constant-bounded slice/index of a string in f is dominated by a
// guard implying the string is long enough. Returns number of sites.
func checkPrefix(c *Ctx, rule string, f *ssa.Function) int {
	c.useFn(f)
	tb := newTB(f)
	n := 0
	eachInstr(f, func(i ssa.Instruction) {
		var x ssa.Value
		var need int64 = -1
		var pos token.Pos
		switch s := i.(type) {
		case *ssa.Slice:
			if !isStringType(s.X.Type()) {
				return
			}
			x, pos = s.X, s.Pos()
			for _, b := range []ssa.Value{s.Low, s.High} {
				if b == nil {
					continue
				}
				if k, ok := b.(*ssa.Const); ok && k.Value != nil && k.Value.Kind() == constant.Int {
					v, _ := constant.Int64Val(k.Value)
					if v > need {
						need = v
					}
				}
			}
		case *ssa.Lookup:
			if !isStringType(s.X.Type()) {
				return
			}
			if k, ok := s.Index.(*ssa.Const); ok && k.Value != nil {
				v, _ := constant.Int64Val(k.Value)
				x, pos, need = s.X, s.Pos(), v+1
			}
		case *ssa.Index:
			if !isStringType(s.X.Type()) {
				return
			}
			if k, ok := s.Index.(*ssa.Const); ok && k.Value != nil {
				v, _ := constant.Int64Val(k.Value)
				x, pos, need = s.X, s.Pos(), v+1
			}
		}
		if x == nil || need <= 0 {
			return
		}
		if _, isConst := x.(*ssa.Const); isConst {
			return
		}
		n++
		xs := tb.T(x).String()
		lb := lenLowerBound(tb, i.Block(), xs)
		c.check(lb >= need, rule, fmt.Sprintf("%s:needs len>=%d", fname(f), need), pos,
			fmt.Sprintf("guarded: dominating conditions give len >= %d", lb),
			fmt.Sprintf("string is sliced/indexed up to %d but dominating conditions only give len >= %d: a shorter line (e.g. a one-letter last sequence line) panics", need, lb))
	})
	return n
}

// checkScanCap (SCANCAP): every bufio.Scanner created in fs must have Buffer(_, max) called with a
// constant max >= 1<<30 before its first Scan; the default 64 KiB token limit ends the scan silently.
func checkScanCap(c *Ctx, rule string, fs []*ssa.Function) int {
	n := 0
	for _, f := range fs {
		eachInstr(f, func(i ssa.Instruction) {
			call, ok := i.(*ssa.Call)
			if !ok || calleeName(call) != "bufio.NewScanner" {
				return
			}
			n++
			c.useFn(f)
			var buf, scans []ssa.CallInstruction
			for _, r := range *call.Referrers() {
				if ci, ok := r.(ssa.CallInstruction); ok {
					switch calleeName(ci) {
					case "(*bufio.Scanner).Buffer":
						buf = append(buf, ci)
					case "(*bufio.Scanner).Scan":
						scans = append(scans, ci)
					}
				}
			}
			good := len(buf) == 1
			why := fmt.Sprintf("%d Buffer calls on the scanner", len(buf))
			if good {
				mx, ok := buf[0].Common().Args[2].(*ssa.Const)
				var v int64
				if ok && mx.Value != nil {
					v, _ = constant.Int64Val(mx.Value)
				}
				if !ok || v < 1<<30 {
					good = false
					why = fmt.Sprintf("Buffer max is %d (or not constant); lines beyond it end the scan silently", v)
				}
				for _, s := range scans {
					if !domInstr(buf[0], s) {
						good = false
						why = "Buffer is not called before the first Scan"
					}
				}
			}
			c.check(good, rule, fname(f)+":scanner token limit", call.Pos(), "scanner.Buffer(_, >= 2^30) precedes every Scan", "bufio.Scanner with the default 64 KiB token limit: "+why+"; a longer line stops the scan and the rest of the input is dropped without an error")
		})
	}
	return n
}

// checkNoShared (NOSHARED): functions in fs reference no package-level variable of the module,
// except those listed in allow (name -> reason). Shared mutable state breaks schedule independence.
func checkNoShared(c *Ctx, rule, construct string, fs []*ssa.Function, allow map[string]string) {
	var hits []string
	for _, f := range fs {
		if !inModule(f) {
			continue
		}
		c.useFn(f)
		eachInstr(f, func(i ssa.Instruction) {
			for _, op := range i.Operands(nil) {
				if op == nil || *op == nil {
					continue
				}
				if g, ok := (*op).(*ssa.Global); ok && g.Pkg != nil && strings.HasPrefix(g.Pkg.Pkg.Path(), modPath) {
					if _, ok := allow[gname(g)]; ok {
						continue
					}
					hits = append(hits, fname(f)+" uses "+gname(g)+" at "+c.W.pos(i.Pos()))
				}
			}
		})
	}
	sort.Strings(hits)
	pos := token.NoPos
	if len(fs) > 0 {
		pos = fs[0].Pos()
	}
	c.check(len(hits) == 0, rule, construct, pos, fmt.Sprintf("%d functions reference no package-level variable", len(fs)), "package-level state shared between concurrent/independent calls: "+strings.Join(hits, "; "))
}
