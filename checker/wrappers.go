package main

// wrappers.go (K12): convenience functions must reach the decided core with the right plumbing,
// plus the small shared rules PREFIX, SCANCAP and NOSHARED (K6).

import (
	"fmt"
	"go/constant"
	"go/token"
	"go/types"
	"sort"
	"strings"

	"golang.org/x/tools/go/ssa"
)

// singleReturnTerm returns the term of result k when f has exactly one return.
func singleReturnTerm(f *ssa.Function, k int) (*Term, *TermBuilder, bool) {
	tb := newTB(f)
	rets := returnsOf(f)
	if len(rets) != 1 || len(rets[0].Results) <= k {
		return nil, tb, false
	}
	return tb.T(rets[0].Results[k]), tb, true
}

// checkReturnIs: every return of f yields, as result k, exactly the given term. A differing term built
// only from known vocabulary is a violation; an unrecognised shape is undecided.
func checkReturnIs(c *Ctx, rule, construct string, f *ssa.Function, k int, want, okWhy string) {
	if f == nil {
		c.missing(rule, construct, construct)
		return
	}
	c.useFn(f)
	tb := newTB(f)
	tb.NoInline = true // wrappers are judged by the function they call, not by its body
	alts := resultAlts(tb, f, k)
	if len(alts) == 0 {
		c.undecided(rule, construct, f.Pos(), "no return with that many results")
		return
	}
	allEq := true
	var diff *Term
	for _, a := range alts {
		if a.T.String() != want {
			allEq = false
			diff = a.T
		}
	}
	if !allEq {
		// the same wrapper with a local helper in between: inline same-package helpers, but keep every
		// callee the expected term itself names
		var keep []string
		if wt := parseTerm(want); wt != nil {
			wt.walk(func(x *Term) {
				if x.Op == "call" {
					keep = append(keep, x.Name)
				}
			})
		}
		dtb := newDeepTB(f, keep...)
		dalts := resultAlts(dtb, f, k)
		deq := len(dalts) > 0
		for _, a := range dalts {
			if a.T.String() != want {
				deq = false
			}
		}
		if deq {
			allEq = true
		}
	}
	if allEq {
		c.ok(rule, construct, f.Pos(), okWhy)
		return
	}
	if len(alts) > 1 {
		// error-propagating variants (an extra early return) are a different shape, not a different wrapper
		c.undecided(rule, construct, f.Pos(), fmt.Sprintf("%d return sites; one yields %s; want %s", len(alts), short(diff.String()), short(want)))
		return
	}
	// the package's other exported functions are vocabulary: a wrapper wired to a sibling is a recognised difference
	var siblings []string
	if sp := pkgOf(f); sp != nil {
		for _, m := range sp.Members {
			if g, ok := m.(*ssa.Function); ok && g.Object() != nil && g.Object().Exported() {
				siblings = append(siblings, "call["+fname(g)+"](x)")
			}
		}
	}
	// a text substitution applied to the file's content on its way to the parser: Replace / ReplaceAll take the
	// text out wherever it stands, so content that merely contains it (inside a value) comes back changed
	if diff != nil {
		var sub *Term
		normText(diff).walk(func(x *Term) {
			if sub == nil && (x.isCall("strings.Replace") || x.isCall("strings.ReplaceAll")) && len(x.Args) >= 3 {
				if x.Args[0].contains(func(y *Term) bool {
					return y.isCall("os.ReadFile") || y.isCall("io/ioutil.ReadFile") || y.isCall("io.ReadAll") || y.isCall("io/ioutil.ReadAll")
				}) {
					sub = x
				}
			}
		})
		if sub != nil {
			c.bad(rule, construct, f.Pos(), "the file's content goes through "+sub.Name+" before it is parsed: the text is taken out (or rewritten) wherever it occurs in the document, not only where the change was meant, so a stored value that contains it is read back changed ("+short(sub.String())+")")
			return
		}
	}
	c.cmpTerm(rule, construct, f.Pos(), diff, want, okWhy, "wrapper does not return the expected call", siblings...)
}

// checkFileWrite: a Write(x, path) wrapper must put exactly data(x) into a truncated/created file.
// Positive evidence of a violation: the file is opened with os.OpenFile without O_TRUNC (a shorter
// output leaves the stale tail of a longer previous file), or WriteFile is given other data.
func checkFileWrite(c *Ctx, rule, construct string, f *ssa.Function, pathParam int, wantData string) {
	if f == nil {
		c.missing(rule, construct, construct)
		return
	}
	c.useFn(f)
	tb := newTB(f)
	tb.NoInline = true
	var wf []ssa.CallInstruction
	var opens []ssa.CallInstruction
	var others []string
	for _, g := range funcsSorted(reachable(f)) {
		if !inModule(g) || g.Blocks == nil {
			continue
		}
		// only follow helpers local to the wrapper's package that are not the data producer
		if g != f && (g.Pkg != f.Pkg || strings.Contains(wantData, "call["+fname(g)+"]")) {
			continue
		}
		eachInstr(g, func(i ssa.Instruction) {
			if ci, ok := i.(ssa.CallInstruction); ok {
				n := calleeName(ci)
				switch {
				case n == "os.WriteFile":
					if g == f {
						wf = append(wf, ci)
					} else {
						others = append(others, n+" in helper "+fname(g))
					}
				case n == "os.OpenFile":
					opens = append(opens, ci)
				case n == "os.Create":
					others = append(others, n)
				}
			}
		})
	}
	for _, o := range opens {
		fl, isC := o.Common().Args[1].(*ssa.Const)
		if isC && fl.Value != nil {
			v, _ := constant.Int64Val(fl.Value)
			trunc := int64(0x200)
			if op := c.W.Prog.ImportedPackage("os"); op != nil {
				if nc, ok := op.Members["O_TRUNC"].(*ssa.NamedConst); ok && nc.Value != nil && nc.Value.Value != nil {
					trunc, _ = constant.Int64Val(nc.Value.Value)
				}
			}
			if v&trunc == 0 {
				c.bad(rule, construct, o.Pos(), fmt.Sprintf("the output file is opened with os.OpenFile flags %#x without O_TRUNC: writing a shorter record over an existing longer file leaves its stale tail, which is read back as extra data", v))
				return
			}
		}
	}
	if len(wf) == 1 && len(opens) == 0 && len(others) == 0 {
		a := wf[0].Common().Args
		p, d := tb.T(a[0]), tb.T(a[1])
		if !p.isParam(pathParam) {
			c.bad(rule, construct, wf[0].Pos(), "the file written is not the path parameter: "+short(p.String()))
			return
		}
		// the write happens whenever the data could be produced: a write that is skipped depending on what the
		// file holds already (its size, its date, its content) leaves the old record in place
		ftb := newTB(f)
		pcw := pathCond(ftb, f.Blocks[0], wf[0].Block())
		for _, at := range pcw.atoms() {
			looks := ""
			at.Atom.walk(func(x *Term) {
				if x.Op == "call" {
					switch {
					case x.Name == "os.ReadFile" || x.Name == "io/ioutil.ReadFile" || x.Name == "os.Open":
						looks = x.Name
					case strings.HasSuffix(x.Name, "FileInfo.Size") || strings.HasSuffix(x.Name, "FileInfo.ModTime"):
						// (whether the path is a directory or exists at all is another matter: such a write fails anyway)
						looks = strings.TrimPrefix(x.Name, "invoke:")
					}
				}
			})
			if looks != "" && !isErrTest(at.Atom) {
				c.bad(rule, construct, wf[0].Pos(), "whether the file is written depends on what "+looks+" reports about the file that is already there ("+short(at.Atom.String())+"): a record that differs from the old one without changing that stays unwritten, and the old record is read back")
				return
			}
		}
		c.cmpTerm(rule, construct, wf[0].Pos(), d, wantData, "WriteFile(path, "+wantData+", perm): whole output, file truncated", "data written to the file")
		return
	}
	c.undecided(rule, construct, f.Pos(), fmt.Sprintf("output is not a single os.WriteFile of the expected data (WriteFile calls=%d, OpenFile calls=%d with O_TRUNC, other=%v)", len(wf), len(opens), others))
}

// lenLowerBound computes a lower bound for len(X) (X identified by term string) at block b from
// dominating branch conditions. Recognised atoms: len(X)==0, len(X)!=0, len(X)<k, k<len(X), k<=len(X), len(X)<=k, X=="" / X!="".
func lenLowerBound(tb *TermBuilder, b *ssa.BasicBlock, x string) int64 {
	lb := int64(0)
	lenx := "call[builtin:len](" + x + ")"
	for d := b; d.Idom() != nil; d = d.Idom() {
		p := d.Idom()
		ifi, ok := p.Instrs[len(p.Instrs)-1].(*ssa.If)
		if !ok || len(p.Succs) != 2 {
			continue
		}
		// which edge leads to d? need an edge that dominates d: succ s with s dominating b and s having p as only pred
		var truth, known bool
		for k, s := range p.Succs {
			if s.Dominates(b) && len(s.Preds) == 1 {
				truth, known = k == 0, true
			}
		}
		if !known || p.Succs[0] == p.Succs[1] {
			continue
		}
		t := tb.T(ifi.Cond)
		if t.Op != "binop" {
			continue
		}
		l, r := t.Args[0], t.Args[1]
		ls, rs := l.String(), r.String()
		lk, lok := l.constInt()
		rk, rok := r.constInt()
		up := func(v int64) {
			if v > lb {
				lb = v
			}
		}
		switch t.Name {
		case "==":
			// commutative sorting may put const first
			if (ls == lenx && rok && rk == 0) || (rs == lenx && lok && lk == 0) {
				if !truth {
					up(1)
				}
			}
			if (ls == x && r.isConst(`""`)) || (rs == x && l.isConst(`""`)) {
				if !truth {
					up(1)
				}
			}
		case "!=":
			if (ls == lenx && rok && rk == 0) || (rs == lenx && lok && lk == 0) || (ls == x && r.isConst(`""`)) || (rs == x && l.isConst(`""`)) {
				if truth {
					up(1)
				}
			}
		case "<":
			if ls == lenx && rok && !truth { // !(len < k) => len >= k
				up(rk)
			}
			if rs == lenx && lok && truth { // k < len => len >= k+1
				up(lk + 1)
			}
		case "<=":
			if rs == lenx && lok && truth { // k <= len
				up(lk)
			}
			if ls == lenx && rok && !truth { // !(len <= k) => len >= k+1
				up(rk + 1)
			}
		}
	}
	// the same facts read off the path condition (sees through predicate helpers and bool variables)
	for _, a := range pathCond(tb, b.Parent().Blocks[0], b).atoms() {
		if !a.Disj && !a.Neg && (a.Atom.isCall("strings.HasPrefix") || a.Atom.isCall("strings.HasSuffix")) && len(a.Atom.Args) == 2 && a.Atom.Args[0].String() == x {
			if cs, ok := a.Atom.Args[1].constStr(); ok && int64(len(cs)) > lb {
				lb = int64(len(cs))
			}
		}
		if a.Disj || a.Atom.Op != "binop" || len(a.Atom.Args) != 2 {
			continue
		}
		l, r := a.Atom.Args[0], a.Atom.Args[1]
		ls, rs := l.String(), r.String()
		lk, lok := l.constInt()
		rk, rok := r.constInt()
		up := func(v int64) {
			if v > lb {
				lb = v
			}
		}
		switch a.Atom.Name {
		case "==":
			if !a.Neg {
				// x == "const": the length is known
				if cs, ok := l.constStr(); ok && rs == x {
					up(int64(len(cs)))
				}
				if cs, ok := r.constStr(); ok && ls == x {
					up(int64(len(cs)))
				}
			}
			if a.Neg && ((ls == lenx && rok && rk == 0) || (rs == lenx && lok && lk == 0) || (ls == x && r.isConst(`""`)) || (rs == x && l.isConst(`""`))) {
				up(1)
			}
		case "<":
			if ls == lenx && rok && a.Neg {
				up(rk)
			}
			if rs == lenx && lok && !a.Neg {
				up(lk + 1)
			}
		case "<=":
			if rs == lenx && lok && !a.Neg {
				up(lk)
			}
			if ls == lenx && rok && a.Neg {
				up(rk + 1)
			}
		}
	}
	return lb
}

// checkPrefix (PREFIX): every constant-bounded slice/index of a string in f is dominated by a
// guard implying the string is long enough. Returns number of sites.
func checkPrefix(c *Ctx, rule string, f *ssa.Function) int {
	c.useFn(f)
	tb := newDeepTB(f)
	n := 0
	eachInstr(f, func(i ssa.Instruction) {
		var x ssa.Value
		var need int64 = -1
		var pos token.Pos
		switch s := i.(type) {
		case *ssa.Slice:
			if !isStringType(s.X.Type()) {
				return
			}
			x, pos = s.X, s.Pos()
			for _, b := range []ssa.Value{s.Low, s.High} {
				if b == nil {
					continue
				}
				if k, ok := b.(*ssa.Const); ok && k.Value != nil && k.Value.Kind() == constant.Int {
					v, _ := constant.Int64Val(k.Value)
					if v > need {
						need = v
					}
				}
			}
		case *ssa.Lookup:
			if !isStringType(s.X.Type()) {
				return
			}
			if k, ok := s.Index.(*ssa.Const); ok && k.Value != nil {
				v, _ := constant.Int64Val(k.Value)
				x, pos, need = s.X, s.Pos(), v+1
			}
		case *ssa.Index:
			if !isStringType(s.X.Type()) {
				return
			}
			if k, ok := s.Index.(*ssa.Const); ok && k.Value != nil {
				v, _ := constant.Int64Val(k.Value)
				x, pos, need = s.X, s.Pos(), v+1
			}
		}
		// bounds of the form len(x)-k need len(x) >= k just the same (x[:len(x)-1] of the empty string panics)
		if need <= 0 {
			var xv ssa.Value
			var bounds []ssa.Value
			switch sx := i.(type) {
			case *ssa.Slice:
				if isStringType(sx.X.Type()) {
					xv, pos, bounds = sx.X, sx.Pos(), []ssa.Value{sx.Low, sx.High}
				}
			case *ssa.Index:
				if isStringType(sx.X.Type()) {
					xv, pos, bounds = sx.X, sx.Pos(), []ssa.Value{sx.Index}
				}
			case *ssa.Lookup:
				if isStringType(sx.X.Type()) {
					xv, pos, bounds = sx.X, sx.Pos(), []ssa.Value{sx.Index}
				}
			}
			if xv != nil {
				xs := tb.T(xv).String()
				for _, b := range bounds {
					if b == nil {
						continue
					}
					bt := tb.T(b)
					if bt.isBin("-") && bt.Args[0].String() == "call[builtin:len]("+xs+")" {
						if k, ok := bt.Args[1].constInt(); ok && k > need {
							x, need = xv, k
						}
					}
				}
			}
		}
		if x == nil || need <= 0 {
			return
		}
		if _, isConst := x.(*ssa.Const); isConst {
			return
		}
		n++
		xs := tb.T(x).String()
		lb := lenLowerBound(tb, i.Block(), xs)
		state := holds
		if lb < need {
			state = broken
			// only a text that is known to come in every length is evidence: a line of a default line
			// scanner, a piece of strings.Split, an argument. A token of a custom split function, the
			// result of a helper or an iterator may be non-empty by construction.
			if !admitsShort(f, tb.T(x), 0) {
				state = unknown
			}
			// a dominating condition that mentions the string in a way this rule cannot read may be the guard
			pc := pathCond(tb, f.Blocks[0], i.Block())
			for _, a := range pc.atoms() {
				as := a.Atom.String()
				if !strings.Contains(as, xs) {
					continue
				}
				readable := false
				switch {
				case a.Atom.Op == "binop" && len(a.Atom.Args) == 2:
					// comparisons of the string, its length, a constant-bounded slice or one of its bytes with a constant
					for k := 0; k < 2; k++ {
						o, cst := stripConv(a.Atom.Args[k]), a.Atom.Args[1-k]
						if cst.Op != "const" {
							continue
						}
						switch {
						case o.String() == xs, o.isCall("builtin:len") && o.Args[0].String() == xs:
							readable = true
						case (o.Op == "slice" || o.Op == "index") && o.Args[0].String() == xs:
							readable = true
						}
					}
				case a.Atom.Op == "call" && strings.HasPrefix(a.Atom.Name, "strings.") && len(a.Atom.Args) == 2 && a.Atom.Args[0].String() == xs && a.Atom.Args[1].Op == "const":
					readable = true // HasPrefix/HasSuffix/Contains(x, const): no length information when false
				}
				if !readable {
					state = unknown
				}
			}
		}
		c.judge(state, rule, fmt.Sprintf("%s:needs len>=%d", fname(f), need), pos,
			fmt.Sprintf("guarded: dominating conditions give len >= %d", lb),
			fmt.Sprintf("string is sliced/indexed up to %d but dominating conditions only give len >= %d: a shorter line (e.g. a one-letter last sequence line) panics", need, lb))
	})
	return n
}

// admitsShort: can the text t be shorter than any fixed length, as far as its source shows?
func admitsShort(f *ssa.Function, t *Term, depth int) bool {
	if t == nil || depth > 8 {
		return false
	}
	switch t.Op {
	case "param":
		return true
	case "field", "deref", "conv", "slice":
		return len(t.Args) > 0 && admitsShort(f, t.Args[0], depth+1)
	case "each", "index":
		if len(t.Args) == 0 {
			return false
		}
		src := t.Args[0]
		for src.Op == "slice" && len(src.Args) > 0 {
			src = src.Args[0]
		}
		if src.Op == "call" {
			switch src.Name {
			case "strings.Split", "strings.SplitN", "strings.SplitAfter", "bytes.Split", "bytes.SplitN":
				return true
			}
			return false
		}
		return admitsShort(f, src, depth+1)
	case "phi", "anyof":
		if len(t.Args) == 0 {
			return false
		}
		for _, a := range t.Args {
			if !admitsShort(f, a, depth+1) {
				return false
			}
		}
		return true
	case "call":
		switch {
		case t.Name == "(*bufio.Scanner).Text" || t.Name == "(*bufio.Scanner).Bytes":
			std := true
			eachInstr(f, func(i ssa.Instruction) {
				if ci, ok := i.(ssa.CallInstruction); ok && calleeName(ci) == "(*bufio.Scanner).Split" {
					as := ci.Common().Args
					fn, isFn := as[len(as)-1].(*ssa.Function)
					if !isFn || fn.String() != "bufio.ScanLines" {
						std = false
					}
				}
			})
			return std
		case t.Name == "(*bufio.Reader).ReadString":
			return true
		case strings.HasPrefix(t.Name, "strings.Trim") || t.Name == "strings.ToUpper" || t.Name == "strings.ToLower":
			return len(t.Args) > 0 && admitsShort(f, t.Args[0], depth+1)
		}
	case "extract":
		return len(t.Args) > 0 && admitsShort(f, t.Args[0], depth+1)
	}
	return false
}

// checkScanCap (SCANCAP): every bufio.Scanner created in fs must have Buffer(_, max) called with a
// constant max >= 1<<30 before its first Scan; the default 64 KiB token limit ends the scan silently.
func checkScanCap(c *Ctx, rule string, fs []*ssa.Function) int {
	n := 0
	for _, f := range fs {
		eachInstr(f, func(i ssa.Instruction) {
			call, ok := i.(*ssa.Call)
			if !ok || calleeName(call) != "bufio.NewScanner" {
				return
			}
			n++
			c.useFn(f)
			var buf, scans []ssa.CallInstruction
			for _, r := range *call.Referrers() {
				if ci, ok := r.(ssa.CallInstruction); ok {
					switch calleeName(ci) {
					case "(*bufio.Scanner).Buffer":
						buf = append(buf, ci)
					case "(*bufio.Scanner).Scan":
						scans = append(scans, ci)
					}
				}
			}
			good := len(buf) == 1
			why := fmt.Sprintf("%d Buffer calls on the scanner", len(buf))
			if good {
				mx, ok := buf[0].Common().Args[2].(*ssa.Const)
				var v int64
				if ok && mx.Value != nil {
					v, _ = constant.Int64Val(mx.Value)
				}
				if !ok {
					// a limit worked out at run time (the size of the input, say): not a fixed ceiling a line can exceed
					c.undecided(rule, fname(f)+":scanner token limit", call.Pos(), "Buffer is called with a limit computed at run time ("+short(newTB(f).T(buf[0].Common().Args[2]).String())+"); whether a line can be longer is not decided")
					return
				}
				if v < 1<<30 {
					good = false
					why = fmt.Sprintf("Buffer max is %d; lines beyond it end the scan silently", v)
				}
				for _, s := range scans {
					if !domInstr(buf[0], s) {
						good = false
						why = "Buffer is not called before the first Scan"
					}
				}
			}
			c.check(good, rule, fname(f)+":scanner token limit", call.Pos(), "scanner.Buffer(_, >= 2^30) precedes every Scan", "bufio.Scanner with the default 64 KiB token limit: "+why+"; a longer line stops the scan and the rest of the input is dropped without an error")
		})
	}
	return n
}

// checkNoShared (NOSHARED): functions in fs use no package-level *mutable* state of the module.
// A package-level value that is only ever read (tables, compiled regexps, replacers, error values)
// is not shared state. Mutable = written outside init somewhere in the module, or of a type whose
// methods mutate it (sync.*, buffers), or handed to a call that may write through it (slices, maps,
// pointers passed as arguments other than to known read-only functions).
func checkNoShared(c *Ctx, rule, construct string, fs []*ssa.Function, allow map[string]string) {
	var hits, soft []string
	for _, f := range fs {
		if !inModule(f) {
			continue
		}
		c.useFn(f)
		eachInstr(f, func(i ssa.Instruction) {
			for _, op := range i.Operands(nil) {
				if op == nil || *op == nil {
					continue
				}
				g, ok := (*op).(*ssa.Global)
				if !ok || g.Pkg == nil || !strings.HasPrefix(g.Pkg.Pkg.Path(), modPath) {
					continue
				}
				if _, ok := allow[gname(g)]; ok {
					continue
				}
				if why := mutableUse(c, g, i); why != "" {
					// the synchronisation types of package sync are safe to share by design; what is done with
					// them (a pool whose objects are not cleared, a memo keyed incompletely) is judged by the
					// STATE rules, not by their mere presence
					if ts := tname(deref(g.Type())); ts == "sync.Pool" || ts == "sync.Map" || ts == "sync.Once" || ts == "sync.Mutex" || ts == "sync.RWMutex" {
						soft = append(soft, fname(f)+" uses "+gname(g)+" ("+ts+")")
						continue
					}
					hits = append(hits, fname(f)+" uses "+gname(g)+" at "+c.W.pos(i.Pos())+" ("+why+")")
				}
			}
		})
	}
	sort.Strings(hits)
	hits = dedupe(hits)
	pos := token.NoPos
	if len(fs) > 0 {
		pos = fs[0].Pos()
	}
	if len(hits) == 0 && len(soft) > 0 {
		sort.Strings(soft)
		c.undecided(rule, construct, pos, "package-level synchronisation objects are used ("+strings.Join(dedupe(soft), "; ")+"); how they are used is judged by the STATE rules")
		return
	}
	c.check(len(hits) == 0, rule, construct, pos, fmt.Sprintf("%d functions use no package-level mutable state", len(fs)), "package-level mutable state shared between concurrent/independent calls: "+strings.Join(hits, "; "))
}

func readOnlyType(t types.Type) bool {
	s := tname(t)
	switch s {
	case "*regexp.Regexp", "*strings.Replacer", "error", "string":
		return true
	}
	if b, ok := t.Underlying().(*types.Basic); ok && b.Kind() != types.UnsafePointer {
		return true
	}
	return false
}

// mutableUse explains why the use of global g by instruction i touches mutable shared state ("" if it does not).
func mutableUse(c *Ctx, g *ssa.Global, i ssa.Instruction) string {
	elem := deref(g.Type())
	ts := tname(elem)
	if strings.HasPrefix(ts, "sync.") || strings.HasPrefix(ts, "*sync.") || strings.Contains(ts, "bytes.Buffer") || strings.Contains(ts, "strings.Builder") || strings.HasPrefix(ts, "chan ") {
		return "a " + ts + " is mutable shared state"
	}
	rel := strings.TrimPrefix(strings.TrimPrefix(g.Pkg.Pkg.Path(), modPath), "/")
	if ws := globalWriters(c, rel, g.Name()); len(ws) > 0 {
		return "written at run time by " + strings.Join(ws, ", ")
	}
	if readOnlyType(elem) {
		return ""
	}
	// a load of the global: follow the loaded value's uses in this function
	switch x := i.(type) {
	case *ssa.Store:
		if x.Addr == ssa.Value(g) {
			return "assigned"
		}
	case *ssa.UnOp:
		return escapingUse(x, 0)
	}
	return ""
}

// escapingUse: the value v (loaded from a read-only-by-assignment global) is only indexed, ranged,
// measured, compared or sliced; passing it (or a slice of it) to a call that may write through it is a mutable use.
func escapingUse(v ssa.Value, depth int) string {
	if depth > 6 || v.Referrers() == nil {
		return ""
	}
	for _, r := range *v.Referrers() {
		switch x := r.(type) {
		case *ssa.Index, *ssa.Lookup, *ssa.Range, *ssa.DebugRef, *ssa.BinOp, *ssa.Field, *ssa.If, *ssa.Return:
		case *ssa.IndexAddr:
			for _, rr := range *x.Referrers() {
				if st, ok := rr.(*ssa.Store); ok && st.Addr == ssa.Value(x) {
					return "an element is stored into"
				}
			}
		case *ssa.FieldAddr:
			for _, rr := range *x.Referrers() {
				if st, ok := rr.(*ssa.Store); ok && st.Addr == ssa.Value(x) {
					return "a field is stored into"
				}
			}
		case *ssa.Slice, *ssa.Phi, *ssa.MakeInterface, *ssa.ChangeType, *ssa.Extract, *ssa.Next:
			if w := escapingUse(x.(ssa.Value), depth+1); w != "" {
				return w
			}
		case *ssa.MapUpdate:
			if x.Map == v {
				return "the map is updated"
			}
		case *ssa.Store:
			if x.Val == v {
				// copied into a local: fine for value semantics of the header, the backing store is still shared but only read unless written later
				continue
			}
		case ssa.CallInstruction:
			n := calleeName(x)
			if n == "builtin:len" || n == "builtin:cap" || n == "builtin:copy" && x.Common().Args[0] != v || stdPure(n) && !strings.Contains(n, "Buffer") {
				continue
			}
			if n == "builtin:append" && x.Common().Args[0] == v {
				return "appended to (may write into the shared backing array)"
			}
			if strings.HasPrefix(n, "(*bufio.Scanner).Buffer") || strings.HasPrefix(n, "(*sync.") {
				return "handed to " + n + ", which writes into it"
			}
			if g := x.Common().StaticCallee(); g != nil && inModule(g) {
				return "passed to " + n
			}
			if _, isSlice := v.Type().Underlying().(*types.Slice); isSlice {
				return "passed to " + n + " as a slice"
			}
		}
	}
	return ""
}


// isErrTest: the atom compares an error value with nil.
func isErrTest(t *Term) bool {
	if t == nil || !(t.isBin("==") || t.isBin("!=")) {
		return false
	}
	for k := 0; k < 2; k++ {
		o, e := t.Args[k], t.Args[1-k]
		if o.Op == "const" && strings.HasPrefix(o.Name, "nil") && e.V != nil && tname(e.V.Type()) == "error" {
			return true
		}
	}
	return false
}
