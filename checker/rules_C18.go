package main

// C18 Combining codon tables adds or averages usage and keeps the code.

import (
	"fmt"
	"strings"

	"golang.org/x/tools/go/ssa"
)

func init() { register("C18", ruleC18) }

const (
	aa0  = "field[AminoAcids](param[0])"
	aa1  = "field[AminoAcids](param[1])"
	cod0 = "field[Codons](each(" + aa0 + "))"
	cod1 = "field[Codons](each(" + aa1 + "))"
	w0   = "field[Weight](each(" + cod0 + "))"
	w1   = "field[Weight](each(" + cod1 + "))"
	t0   = "field[Triplet](each(" + cod0 + "))"
	t1   = "field[Triplet](each(" + cod1 + "))"
	l0   = "field[Letter](each(" + aa0 + "))"
	l1   = "field[Letter](each(" + aa1 + "))"
)

func partialOf(t *Term, name string) *Term {
	if t == nil {
		return nil
	}
	var out *Term
	check := func(a *Term) {
		if a.Op == "partial" && a.Name == "."+name {
			out = a.Args[0]
		}
	}
	check(t)
	for _, a := range t.Args {
		check(a)
	}
	return out
}

// successReturn finds the single return whose error result is nil.
func successReturn(tb *TermBuilder, f *ssa.Function, errIdx int) *ssa.Return {
	var out *ssa.Return
	n := 0
	for _, r := range returnsOf(f) {
		if len(r.Results) <= errIdx {
			continue
		}
		if e := tb.T(r.Results[errIdx]); e.Op == "const" && strings.HasPrefix(e.Name, "nil:") {
			out = r
			n++
		}
	}
	if n != 1 {
		return nil
	}
	return out
}

// sumOf: the additive contributions of a total must be exactly one term, added in a loop.
func sumOf(tb *TermBuilder, v ssa.Value) (string, *Cond, bool) {
	cs := additive(tb, v)
	if len(cs) != 1 || cs[0].Neg || !cs[0].InLoop {
		return fmt.Sprintf("%d contributions", len(cs)), nil, false
	}
	return cs[0].T.String(), cs[0].Cond, true
}

func ruleC18(c *Ctx) {
	c.Decided = []string{
		"GUARD: cutOff<0 and cutOff>1 (strict, constants 0 and 1, on the float itself) return a non-nil error before any other work",
		"TERM-ADD: result codon weight = first.Weight + second.Weight under first.Triplet == second.Triplet; letters, triplets, start and stop codons from the first table",
		"TERM-COMP: share = int(float(w)/float(sum over the same amino acid in the matching table)*10000); cut = int(10000*cutOff); result = 0 if share1<cut or share2<cut else int((share1+share2)/2); second table matched by letter AND triplet; assignments/start/stop from the first table",
		"WRITERS: neither function stores into memory reachable from its arguments",
	}
	c.Undec = []string{"tables that do not share the genetic code (misaligned second weights – outside the quantifier)", "float rounding (±1 allowed by the property)"}
	c.floor("GUARD", 2)
	c.floor("TERM-ADD", 2)
	c.floor("TERM-COMP", 5)
	c.floor("WRITERS", 2)
	w := c.W
	add := w.fn("transform/codon", "AddCodonTable")
	cmp := w.fn("transform/codon", "CompromiseCodonTable")
	if add == nil || cmp == nil {
		c.missing("TERM-ADD", "codon.AddCodonTable/CompromiseCodonTable", "exported functions")
		return
	}
	c.useFn(add)
	c.useFn(cmp)

	// ---------- AddCodonTable
	{
		tb := newTB(add)
		rt, _, ok := singleReturnTerm(add, 0)
		if !ok {
			c.bad("TERM-ADD", "single return", add.Pos(), "AddCodonTable has several returns (unrecognised shape)")
		} else {
			st, sp := partialOf(rt, "StartCodons"), partialOf(rt, "StopCodons")
			c.check(st != nil && sp != nil && st.String() == "field[StartCodons](param[0])" && sp.String() == "field[StopCodons](param[0])", "TERM-ADD", "start/stop from first table", add.Pos(), "StartCodons and StopCodons are the first table's", "start/stop codons are not taken from the first table")
			aas := partialOf(rt, "AminoAcids")
			good, why := false, "AminoAcids is not one entry per amino acid of the first table (unrecognised shape)"
			if aas != nil && aas.Op == "collect" {
				e := aas.Args[0]
				lt, cd := partialOf(e, "Letter"), partialOf(e, "Codons")
				if lt != nil && cd != nil && lt.String() == l0 {
					sites := topAppendSites(cd)
					if len(sites) == 1 {
						ce := sites[0].Elem
						tr, wt := partialOf(ce, "Triplet"), partialOf(ce, "Weight")
						pc := pathCond(tb, add.Blocks[0], sites[0].At.Block())
						eq := "binop[==](" + t0 + ", " + t1 + ")"
						wantW := "binop[+](" + w0 + ", " + w1 + ")"
						if tr != nil && wt != nil && tr.String() == t0 && wt.String() == wantW && pc.implies(eq, false) {
							good = true
						} else {
							why = fmt.Sprintf("codon entry is {%s, %s} under %s; want {first.Triplet, first.Weight+second.Weight} under first.Triplet==second.Triplet", short(fmt.Sprint(tr)), short(fmt.Sprint(wt)), short(pc.String()))
						}
						// no further filter on the second table's entries (e.g. weight > 0)
						for _, a := range pc.atoms() {
							as := a.Atom.String()
							if as != eq && !isIterCond(a.Atom) {
								good = false
								why = "codons are summed only under an extra condition: " + short(as)
							}
						}
					} else {
						why = fmt.Sprintf("%d append sites build the codon list, want 1", len(sites))
					}
				}
			}
			c.check(good, "TERM-ADD", "weight=first+second under equal triplets", add.Pos(), "for every amino acid and codon of the first table, every second-table codon with the same triplet contributes first.Weight+second.Weight; letters from the first table", why)
		}
	}

	// ---------- CompromiseCodonTable
	tb := newTB(cmp)
	// GUARD
	nGuard := 0
	for _, r := range returnsOf(cmp) {
		if len(r.Results) != 2 {
			continue
		}
		e := tb.T(r.Results[1])
		if !e.isCall("errors.New") && !(e.Op == "call" && strings.HasPrefix(e.Name, "fmt.Errorf")) {
			continue
		}
		pc := pathCond(tb, cmp.Blocks[0], r.Block())
		switch {
		case pc.String() == "binop[<](param[2], const[0])":
			nGuard++
			c.ok("GUARD", "cutOff<0 -> error", r.Pos(), "first test, strict, on the float argument")
		case pc.String() == "(!(binop[<](param[2], const[0])) && binop[<](const[1], param[2]))" || pc.String() == "(binop[<](const[1], param[2]) && !(binop[<](param[2], const[0])))" || pc.String() == "binop[<](const[1], param[2])":
			nGuard++
			c.ok("GUARD", "cutOff>1 -> error", r.Pos(), "second test, strict, on the float argument")
		default:
			c.bad("GUARD", "error return", r.Pos(), "error returned under "+short(pc.String())+"; the property wants exactly cutOff<0 and cutOff>1 tested on the argument itself")
		}
	}
	if nGuard != 2 {
		c.bad("GUARD", "range checks", cmp.Pos(), fmt.Sprintf("%d of the 2 cut-off range checks found", nGuard))
	}
	sr := successReturn(tb, cmp, 1)
	if sr == nil {
		c.bad("TERM-COMP", "single success return", cmp.Pos(), "expected exactly one (table, nil) return")
		return
	}
	// the success return must be dominated by both guards' false edges (checked through its path condition)
	spc := pathCond(tb, cmp.Blocks[0], sr.Block())
	c.check(spc.implies("binop[<](param[2], const[0])", true) && spc.implies("binop[<](const[1], param[2])", true), "GUARD", "guards dominate the computation", sr.Pos(), "the table is only returned when both range checks failed", "the success return is reachable without passing both range checks: "+short(spc.String()))
	rt := tb.T(sr.Results[0])
	st, sp := partialOf(rt, "StartCodons"), partialOf(rt, "StopCodons")
	c.check(st != nil && sp != nil && st.String() == "field[StartCodons](param[0])" && sp.String() == "field[StopCodons](param[0])", "TERM-COMP", "start/stop from first table", cmp.Pos(), "StartCodons and StopCodons are the first table's", "start/stop codons are not taken from the first table")
	aas := partialOf(rt, "AminoAcids")
	if aas == nil || aas.Op != "collect" {
		c.bad("TERM-COMP", "one entry per amino acid of the first table", cmp.Pos(), "AminoAcids is not collected once per amino acid of the first table (unrecognised shape)")
		return
	}
	ae := aas.Args[0]
	lt, cd := partialOf(ae, "Letter"), partialOf(ae, "Codons")
	if lt == nil || cd == nil || lt.String() != l0 || cd.Op != "collect" {
		c.bad("TERM-COMP", "letters from first table, one codon per first-table codon", cmp.Pos(), "amino-acid entries are not {first.Letter, one codon per codon of the first table} (unrecognised shape)")
		return
	}
	ce := cd.Args[0]
	tr, wt := partialOf(ce, "Triplet"), partialOf(ce, "Weight")
	trOK := tr != nil && (tr.String() == "each(collect(each(collect("+t0+"))))" || tr.String() == "each(collect("+t0+"))" || tr.String() == t0)
	c.check(trOK, "TERM-COMP", "triplets from first table", cmp.Pos(), "result triplets are the first table's, in order", "result triplet is "+short(fmt.Sprint(tr)))
	if wt == nil || (wt.Op != "zip" && wt.Op != "each") {
		c.bad("TERM-COMP", "weights", cmp.Pos(), "result weight is not read from the per-codon weight list (unrecognised shape): "+short(fmt.Sprint(wt)))
		return
	}
	sites := topAppendSites(wt.Args[0])
	var zero, avg *appSite
	for i := range sites {
		if sites[i].Elem.isConst("0") {
			zero = &sites[i]
		} else {
			avg = &sites[i]
		}
	}
	if len(sites) != 2 || zero == nil || avg == nil {
		c.bad("TERM-COMP", "weight = 0 or mean", cmp.Pos(), fmt.Sprintf("%d weight-producing sites, want exactly {0, mean}", len(sites)))
		return
	}
	// mean term: conv[int](binop[/](binop[+](conv[float64](S1), conv[float64](S2)), const[2]))
	a := avg.Elem
	okAvg := a.Op == "conv" && a.Name == "int" && a.Args[0].isBin("/") && a.Args[0].Args[1].isConst("2") && a.Args[0].Args[0].isBin("+")
	var s1, s2 *Term
	if okAvg {
		x, y := a.Args[0].Args[0].Args[0], a.Args[0].Args[0].Args[1]
		if x.Op == "conv" && y.Op == "conv" {
			s1, s2 = x.Args[0], y.Args[0]
		} else {
			okAvg = false
		}
	}
	c.check(okAvg, "TERM-COMP", "mean = int((share1+share2)/2)", avg.At.Pos(), "the kept weight is the mean of the two shares", "kept weight is "+short(a.String())+"; want int((float(share1)+float(share2))/2)")
	if !okAvg {
		return
	}
	// identify which share is the first table's (contains param[0] weights)
	if !strings.Contains(s1.String(), "collect("+w0+")") {
		s1, s2 = s2, s1
	}
	parseShare := func(s *Term) (wi *Term, total ssa.Value, ok bool) {
		if s.Op == "conv" && s.Name == "int" && s.Args[0].isBin("*") {
			m := s.Args[0]
			for k := 0; k < 2; k++ {
				if m.Args[k].isConst("10000") && m.Args[1-k].isBin("/") {
					d := m.Args[1-k]
					if d.Args[0].Op == "conv" && d.Args[1].Op == "conv" {
						return d.Args[0].Args[0], d.Args[1].Args[0].V, true
					}
				}
			}
		}
		return nil, nil, false
	}
	w1i, tot1, ok1 := parseShare(s1)
	w2i, tot2, ok2 := parseShare(s2)
	if !ok1 || !ok2 {
		c.bad("TERM-COMP", "share = int(w/total*10000)", avg.At.Pos(), "shares are not int(float(w)/float(total)*10000): "+short(s1.String())+" / "+short(s2.String()))
		return
	}
	tripList := "collect(" + t0 + ")"
	okW1 := w1i.String() == "zip(collect("+w0+"), "+tripList+")" || w1i.String() == "each(collect("+w0+"))"
	sum1, _, okS1 := sumOf(tb, tot1)
	c.check(okW1 && okS1 && sum1 == w0, "TERM-COMP", "share1 = w/sum over the same amino acid (table 1)", avg.At.Pos(), "first share divides the codon's weight by the sum of its amino acid's weights in the first table", fmt.Sprintf("first share uses weight %s over total of %s", short(w1i.String()), sum1))
	// second: weights collected under letter== && triplet==, total summed at the same site
	okW2 := w2i.Op == "zip" && w2i.Args[1].String() == tripList && w2i.Args[0].Op == "collect" && w2i.Args[0].Args[0].String() == w1
	var c2 *Cond
	if okW2 {
		c2 = pathCond(tb, cmp.Blocks[0], w2i.Args[0].V.(ssa.Instruction).Block())
		okW2 = c2.implies("binop[==]("+l0+", "+l1+")", false) && c2.implies("binop[==]("+t0+", "+t1+")", false)
	}
	sum2, cs2, okS2 := sumOf(tb, tot2)
	okS2 = okS2 && sum2 == w1 && cs2 != nil && c2 != nil && cs2.String() == c2.String()
	c.check(okW2 && okS2, "TERM-COMP", "share2 = matching codon's w/sum (table 2, matched by letter and triplet)", avg.At.Pos(), "second share uses the second table's codon with the same letter and triplet, over the sum of exactly those matched weights", fmt.Sprintf("second share: weight %s (matched by letter&&triplet=%v), total of %s (same match=%v)", short(w2i.String()), okW2, sum2, okS2))
	// cut-off condition
	cut := "conv[int](binop[*](const[10000], param[2]))"
	lt1 := "binop[<](" + s1.String() + ", " + cut + ")"
	lt2 := "binop[<](" + s2.String() + ", " + cut + ")"
	zc := pathCondFromDom(tb, zero.At.Block(), avg.At.Block())
	ac := pathCondFromDom(tb, avg.At.Block(), zero.At.Block())
	wantZ := "(" + lt1 + " || " + lt2 + ")"
	if lt1 > lt2 {
		wantZ = "(" + lt2 + " || " + lt1 + ")"
	}
	okCut := zc != nil && ac != nil && zc.String() == wantZ && ac.implies(lt1, true) && ac.implies(lt2, true)
	zs := "?"
	if zc != nil {
		zs = zc.String()
	}
	c.check(okCut, "TERM-COMP", "0 iff share1<cut or share2<cut, cut=int(10000*cutOff)", zero.At.Pos(), "weight is zeroed exactly when either share is below int(10000*cutOff) (strict), else the mean is kept", "zeroing condition is "+short(zs)+"; want share1 < int(10000*cutOff) || share2 < int(10000*cutOff)")

	// WRITERS
	for _, f := range []*ssa.Function{add, cmp} {
		ws := argWriters(f)
		c.check(len(ws) == 0, "WRITERS", fname(f)+" does not write its arguments", f.Pos(), "no store through memory reachable from a parameter", "stores into argument memory: "+strings.Join(ws, "; "))
	}
}

// pathCondFromDom: condition of block b relative to the nearest common dominator of b and other.
func pathCondFromDom(tb *TermBuilder, b, other *ssa.BasicBlock) *Cond {
	d := b
	for d != nil && !(d.Dominates(b) && d.Dominates(other)) {
		d = d.Idom()
	}
	if d == nil {
		return nil
	}
	return pathCond(tb, d, b)
}
