package main

// C18 Combining codon tables adds or averages usage and keeps the code.

import (
	"fmt"
	"math"
	"strings"

	"golang.org/x/tools/go/ssa"
)

func init() { register("C18", ruleC18) }

const (
	aa0  = "field[AminoAcids](param[0])"
	aa1  = "field[AminoAcids](param[1])"
	cod0 = "field[Codons](each(" + aa0 + "))"
	cod1 = "field[Codons](each(" + aa1 + "))"
	w0   = "field[Weight](each(" + cod0 + "))"
	w1   = "field[Weight](each(" + cod1 + "))"
	t0   = "field[Triplet](each(" + cod0 + "))"
	t1   = "field[Triplet](each(" + cod1 + "))"
	l0   = "field[Letter](each(" + aa0 + "))"
	l1   = "field[Letter](each(" + aa1 + "))"
)

func partialOf(t *Term, name string) *Term {
	if t == nil {
		return nil
	}
	var out *Term
	check := func(a *Term) {
		if a.Op == "partial" && a.Name == "."+name {
			out = a.Args[0]
		}
	}
	check(t)
	for _, a := range t.Args {
		check(a)
	}
	return out
}

// successReturn finds the single return whose error result is nil.
func successReturn(tb *TermBuilder, f *ssa.Function, errIdx int) *ssa.Return {
	var out *ssa.Return
	n := 0
	for _, r := range returnsOf(f) {
		if len(r.Results) <= errIdx {
			continue
		}
		if e := tb.T(r.Results[errIdx]); e.Op == "const" && strings.HasPrefix(e.Name, "nil:") {
			out = r
			n++
		}
	}
	if n != 1 {
		return nil
	}
	return out
}

// sumOf: the additive contributions of a total must be exactly one term, added in a loop.
func sumOf(tb *TermBuilder, v ssa.Value) (string, *Cond, bool) {
	cs := additive(tb, v)
	if len(cs) != 1 || cs[0].Neg || !cs[0].InLoop {
		return fmt.Sprintf("%d contributions", len(cs)), nil, false
	}
	return cs[0].T.String(), cs[0].Cond, true
}

func ruleC18(c *Ctx) {
	c.Decided = []string{
		"GUARD: cutOff<0 and cutOff>1 (strict, constants 0 and 1, on the float itself) return a non-nil error before any other work",
		"TERM-ADD: result codon weight = first.Weight + second.Weight under first.Triplet == second.Triplet; letters, triplets, start and stop codons from the first table",
		"TERM-COMP: share = int(float(w)/float(sum over the same amino acid in the matching table)*10000); cut = int(10000*cutOff); result = 0 if share1<cut or share2<cut else int((share1+share2)/2); second table matched by letter AND triplet; assignments/start/stop from the first table",
		"WRITERS: neither function stores into memory reachable from its arguments",
	}
	c.Undec = []string{"tables that do not share the genetic code (misaligned second weights – outside the quantifier)", "float rounding (±1 allowed by the property)"}
	c.floor("GUARD", 2)
	c.floor("TERM-ADD", 2)
	c.floor("TERM-COMP", 5)
	c.floor("WRITERS", 2)
	w := c.W
	add := w.fn("transform/codon", "AddCodonTable")
	cmp := w.fn("transform/codon", "CompromiseCodonTable")
	if add == nil || cmp == nil {
		c.missing("TERM-ADD", "codon.AddCodonTable/CompromiseCodonTable", "exported functions")
		return
	}
	c.useFn(add)
	c.useFn(cmp)

	// WRITERS
	for _, f := range []*ssa.Function{add, cmp} {
		ws := apiArgWrites(f)
		c.check(len(ws) == 0, "WRITERS", fname(f)+" does not write its arguments", f.Pos(), "no store or in-place append reaches memory reachable from a parameter", "stores into argument memory: "+strings.Join(ws, "; ")+": the caller's table (and, for a default table, the package's shared table) is changed by the call")
	}
	checkAddTable(c, add)
	checkCompromise(c, cmp)
}

func checkAddTable(c *Ctx, add *ssa.Function) {
	tb := newDeepTB(add)
	alts := resultAlts(tb, add, 0)
	if len(alts) != 1 {
		c.undecided("TERM-ADD", "single return", add.Pos(), fmt.Sprintf("AddCodonTable has %d returns", len(alts)))
		return
	}
	rt := alts[0].T
	for _, f := range []string{"StartCodons", "StopCodons"} {
		got := partialOf(rt, f)
		if got == nil && rt.isParam(0) {
			got = parseTerm("field[" + f + "](param[0])")
		}
		if privateCopy(c, tb, add, "TERM-ADD", f, got) {
			continue
		}
		c.cmpTerm("TERM-ADD", f+" from first table", add.Pos(), got, "field["+f+"](param[0])", f+" is the first table's", "the result's "+f, "field["+f+"](param[1])")
	}
	aas := partialOf(rt, "AminoAcids")
	st, why := unknown, "AminoAcids is not visibly one entry per amino acid of the first table"
	if aas != nil && aas.Op == "collect" {
		e := aas.Args[0]
		lt, cd := partialOf(e, "Letter"), partialOf(e, "Codons")
		switch {
		case lt == nil || cd == nil:
		case lt.String() != l0:
			st = stateOf(false, vocabOf(l0, l1), lt)
			if st == broken && !localDiff(lt, l0) {
				st = unknown
			}
			why = "amino-acid letters are " + short(lt.String()) + "; want the first table's"
		default:
			sites := topAppendSites(cd)
			if len(sites) != 1 {
				why = fmt.Sprintf("%d append sites build the codon list, the model needs 1", len(sites))
				break
			}
			ce := sites[0].Elem
			tr, wt := partialOf(ce, "Triplet"), partialOf(ce, "Weight")
			pc := pathCond(tb, add.Blocks[0], sites[0].At.Block())
			eq := "binop[==](" + t0 + ", " + t1 + ")"
			wantW := "binop[+](" + w0 + ", " + w1 + ")"
			vocab := vocabOf(w0, w1, t0, t1)
			switch {
			case tr == nil || wt == nil:
				why = "the codon entry is not a visible Codon literal"
			case !pc.implies(eq, false):
				why = "codons are combined under " + short(pc.String())
				if pc.implies(eq, true) {
					st, why = broken, "weights are added for codons whose triplets DIFFER"
					break
				}
				// the second table indexed by triplet in a map: M[t1] = w1 for all its codons, then M[t0]
				if wt != nil && wt.isBin("+") {
					for k := 0; k < 2; k++ {
						lk := wt.Args[k]
						if lk.Op == "extract" && lk.Name == "0" {
							lk = lk.Args[0]
						}
						if wt.Args[1-k].String() != w0 || lk.Op != "lookup" || lk.Args[0].Op != "makemap" || lk.Args[1].String() != t0 {
							continue
						}
						filled := false
						eachInstr(add, func(i ssa.Instruction) {
							if mu, ok := i.(*ssa.MapUpdate); ok && tb.T(mu.Map).String() == lk.Args[0].String() && tb.T(mu.Key).String() == t1 && tb.T(mu.Value).String() == w1 {
								if entry := loopBodyEntry(mu.Block()); entry != nil && pathCond(tb, entry, mu.Block()).Op == "true" {
									filled = true
								}
							}
						})
						if !filled {
							continue
						}
						for _, a := range pc.atoms() {
							at := a.Atom
							switch {
							case isIterCond(at):
							case at.Op == "extract" && at.Name == "1" && at.Args[0].Op == "lookup" && at.Args[0].Args[1].String() == t0 && !a.Neg:
								st = holds
							case at.Op == "binop" && strings.Contains(at.String(), "lookup("+lk.Args[0].String()+", "+t0+")") && (at.Args[0].Op == "const" || at.Args[1].Op == "const"):
								st, why = broken, "a codon is carried into the sum only if its weight in the second table passes "+short(at.String())+": a codon the second organism never uses is dropped from the result together with the first table's weight"
							}
						}
					}
				}
			case tr.String() != t0 && tr.String() != t1:
				st = stateOf(false, vocab, tr)
				why = "the result codon's triplet is " + short(tr.String())
			case wt.String() != wantW:
				st = unknown
				if len(opaqueParts(wt, vocab)) == 0 && localDiff(wt, wantW) {
					st = broken
				}
				why = "the result weight is " + short(wt.String()) + "; want first.Weight + second.Weight"
			default:
				st = holds
				for _, a := range pc.atoms() {
					as := a.Atom.String()
					if as != eq && !isIterCond(a.Atom) {
						st, why = unknown, "codons are summed only under an extra condition: "+short(as)
						if len(opaqueParts(a.Atom, vocab)) == 0 {
							st = broken
						}
					}
				}
			}
		}
	}
	c.judge(st, "TERM-ADD", "weight=first+second under equal triplets", add.Pos(), "for every amino acid and codon of the first table, every second-table codon with the same triplet contributes first.Weight+second.Weight; letters from the first table", why)
}

// sampleRel evaluates a comparison atom whose two sides are named quantities (by rendered term) or constants.
func numVal(x *Term, env map[string]float64) (float64, bool) {
	var val func(x *Term) (float64, bool)
	val = func(x *Term) (float64, bool) {
		if v, ok := env[x.String()]; ok {
			return v, true
		}
		if f, ok := x.constFloat(); ok {
			return f, true
		}
		if x.Op == "conv" && len(x.Args) == 1 {
			v, ok := val(x.Args[0])
			if ok && strings.HasPrefix(x.Name, "int") {
				return math.Trunc(v), true
			}
			return v, ok
		}
		if x.Op == "binop" && len(x.Args) == 2 {
			a, ok1 := val(x.Args[0])
			b, ok2 := val(x.Args[1])
			if ok1 && ok2 {
				switch x.Name {
				case "+":
					return a + b, true
				case "-":
					return a - b, true
				case "*":
					return a * b, true
				case "/":
					if b != 0 {
						return a / b, true
					}
				}
			}
		}
		return 0, false
	}
	return val(x)
}

func sampleAtom(t *Term, env map[string]float64) (bool, bool) {
	if t.Op != "binop" || len(t.Args) != 2 {
		return false, false
	}
	var val func(x *Term) (float64, bool)
	val = func(x *Term) (float64, bool) {
		if v, ok := env[x.String()]; ok {
			return v, true
		}
		if f, ok := x.constFloat(); ok {
			return f, true
		}
		if x.Op == "conv" && len(x.Args) == 1 {
			v, ok := val(x.Args[0])
			if ok && strings.HasPrefix(x.Name, "int") {
				return math.Trunc(v), true
			}
			return v, ok
		}
		if x.Op == "binop" && len(x.Args) == 2 {
			a, ok1 := val(x.Args[0])
			b, ok2 := val(x.Args[1])
			if ok1 && ok2 {
				switch x.Name {
				case "+":
					return a + b, true
				case "-":
					return a - b, true
				case "*":
					return a * b, true
				case "/":
					if b != 0 {
						return a / b, true
					}
				}
			}
		}
		return 0, false
	}
	a, ok1 := val(t.Args[0])
	b, ok2 := val(t.Args[1])
	if !ok1 || !ok2 {
		return false, false
	}
	switch t.Name {
	case "==":
		return a == b, true
	case "!=":
		return a != b, true
	case "<":
		return a < b, true
	case "<=":
		return a <= b, true
	}
	return false, false
}

func checkCompromise(c *Ctx, cmp *ssa.Function) {
	view := newFamView(cmp)
	for _, g := range view.fns {
		c.useFn(g)
	}
	tb := view.tb[cmp]
	// GUARD: decided on samples of cutOff around the two bounds
	samples := []float64{-1, -0.0001, -0.00001, 0, 0.0001, 0.5, 0.9999, 1, 1.00001, 1.0001, 2}
	type retc struct {
		isErr bool
		pc    *Cond
		r     *ssa.Return
	}
	var rets []retc
	guardDelegated := false
	for _, r := range returnsOf(cmp) {
		if len(r.Results) != 2 {
			continue
		}
		e := tb.T(r.Results[1])
		isNil := e.Op == "const" && strings.HasPrefix(e.Name, "nil:")
		// an error that is visibly made here (errors.New, fmt.Errorf, a package-level error value, a literal of
		// an error type); the error result of another call may be nil or not: that return decides nothing here
		isMade := e.isCall("errors.New") || e.isCall("fmt.Errorf") || e.Op == "global" || e.Op == "alloc" || (e.Op == "conv" || e.Op == "typeassert")
		if e.Op == "call" && !isMade || e.Op == "extract" || e.Op == "phi" || e.Op == "anyof" {
			c.undecided("GUARD", "error iff cutOff<0 or cutOff>1", r.Pos(), "a return hands on the error of another call ("+short(e.String())+"); whether it is nil for a given cutOff is decided there")
			guardDelegated = true
			continue
		}
		rets = append(rets, retc{!isNil, pathCond(tb, cmp.Blocks[0], r.Block()), r})
	}
	stG, whyG := holds, ""
	for _, x := range samples {
		env := map[string]float64{"param[2]": x}
		wantErr := x < 0 || x > 1
		errTaken, errKnown := false, true
		okTaken, okKnown := false, true
		for _, rc := range rets {
			v, known := evalCond3(rc.pc, func(t *Term) (bool, bool) { return sampleAtom(t, env) })
			if rc.isErr {
				if !known {
					errKnown = false
				} else if v {
					errTaken = true
				}
			} else {
				if !known {
					okKnown = false
				} else if v {
					okTaken = true
				}
			}
		}
		switch {
		case wantErr && errKnown && !errTaken:
			stG, whyG = broken, fmt.Sprintf("cutOff = %v is outside 0..1 but no error return is taken for it", x)
		case !wantErr && errTaken:
			stG, whyG = broken, fmt.Sprintf("cutOff = %v is inside 0..1 but an error is returned for it", x)
		case wantErr && okKnown && okTaken:
			stG, whyG = broken, fmt.Sprintf("cutOff = %v is outside 0..1 but a table is returned for it", x)
		case (wantErr && !errKnown && !errTaken) && stG == holds:
			stG, whyG = unknown, "the error returns depend on conditions the rule cannot evaluate on cutOff alone"
		}
	}
	if len(rets) == 0 {
		stG, whyG = unknown, "no (table, error) returns found"
	}
	if guardDelegated && !(stG == broken && !strings.Contains(whyG, "no error return")) {
		// already reported as undecided at the delegating return; "no error return is taken" cannot be said
		// while some return hands on another call's error
		stG, whyG = unknown, "some returns hand on the error of another call"
	}
	c.judge(stG, "GUARD", "error iff cutOff<0 or cutOff>1", cmp.Pos(), "decided for cutOff in {-1, -0.0001, -0.00001, 0, 0.0001, 0.5, 0.9999, 1, 1.00001, 1.0001, 2}: an error return is taken exactly outside [0,1]", whyG)
	c.Sites += len(samples)
	var succ *ssa.Return
	nSucc := 0
	for _, rc := range rets {
		if !rc.isErr {
			succ = rc.r
			nSucc++
		}
	}
	if nSucc != 1 {
		c.undecided("TERM-COMP", "single success return", cmp.Pos(), fmt.Sprintf("%d (table, nil) returns", nSucc))
		return
	}
	c.ok("GUARD", "one success return", succ.Pos(), "a single (table, nil) return")
	rt := tb.T(succ.Results[0])
	for _, f := range []string{"StartCodons", "StopCodons"} {
		if privateCopy(c, tb, cmp, "TERM-COMP", f, partialOf(rt, f)) {
			continue
		}
		c.cmpTerm("TERM-COMP", f+" from first table", cmp.Pos(), partialOf(rt, f), "field["+f+"](param[0])", f+" is the first table's", "the result's "+f, "field["+f+"](param[1])")
	}
	aas := partialOf(rt, "AminoAcids")
	if aas == nil || aas.Op != "collect" {
		c.undecided("TERM-COMP", "one entry per amino acid of the first table", cmp.Pos(), "AminoAcids is not collected once per amino acid of the first table")
		return
	}
	ae := aas.Args[0]
	lt, cd := partialOf(ae, "Letter"), partialOf(ae, "Codons")
	if lt == nil || cd == nil || cd.Op != "collect" {
		c.undecided("TERM-COMP", "letters from first table, one codon per first-table codon", cmp.Pos(), "amino-acid entries are not visibly {letter, one codon per codon}")
		return
	}
	c.cmpTerm("TERM-COMP", "letters from first table", cmp.Pos(), lt, l0, "amino-acid letters are the first table's", "amino-acid letters", l1)
	ce := cd.Args[0]
	tr, wt := partialOf(ce, "Triplet"), partialOf(ce, "Weight")
	trOK := tr != nil && (tr.String() == "each(collect(each(collect("+t0+"))))" || tr.String() == "each(collect("+t0+"))" || tr.String() == t0)
	stTr, whyTr := holds, ""
	if !trOK {
		stTr, whyTr = unknown, "result triplet is "+short(fmt.Sprint(tr))
		if tr != nil && strings.Contains(tr.String(), t1) && !strings.Contains(tr.String(), t0) {
			stTr, whyTr = broken, "result triplets are the second table's"
		}
	}
	c.judge(stTr, "TERM-COMP", "triplets from first table", cmp.Pos(), "result triplets are the first table's, in order", whyTr)
	// the weight: either read back from a per-codon list, or computed in place
	var sites []appSite
	switch {
	case wt != nil && (wt.Op == "zip" || wt.Op == "each"):
		sites = topAppendSites(wt.Args[0])
	case wt != nil && wt.Op == "phi" && !wt.Cyc:
		if ph, ok := wt.V.(*ssa.Phi); ok {
			for k, e := range ph.Edges {
				pred := ph.Block().Preds[k]
				sites = append(sites, appSite{Elem: tb.T(e), At: pred.Instrs[len(pred.Instrs)-1]})
			}
		}
	}
	var zero, avg *appSite
	for i := range sites {
		if sites[i].Elem.isConst("0") {
			zero = &sites[i]
		} else {
			avg = &sites[i]
		}
	}
	if len(sites) != 2 || zero == nil || avg == nil {
		c.undecided("TERM-COMP", "weight = 0 or mean", cmp.Pos(), fmt.Sprintf("%d weight-producing sites; the model needs exactly {0, mean}: %s", len(sites), short(fmt.Sprint(wt))))
		return
	}
	// mean term: int((float(S1)+float(S2))/2) or (S1+S2)/2
	a := stripConv(avg.Elem)
	stM, whyM := unknown, "kept weight is "+short(a.String())
	var s1, s2 *Term
	if a.isBin("/") && a.Args[0].isBin("+") {
		x, y := stripConv(a.Args[0].Args[0]), stripConv(a.Args[0].Args[1])
		s1, s2 = x, y
		switch {
		case a.Args[1].isConst("2"):
			stM = holds
		case a.Args[1].Op == "const":
			stM, whyM = broken, "the kept weight is (share1+share2)/"+a.Args[1].Name+"; the compromise is the mean of the two shares"
		}
	} else if a.isBin("+") {
		stM, whyM = broken, "the kept weight is the sum of the two shares, not their mean"
		s1, s2 = stripConv(a.Args[0]), stripConv(a.Args[1])
	}
	c.judge(stM, "TERM-COMP", "mean = (share1+share2)/2", avg.At.Pos(), "the kept weight is the mean of the two shares", whyM)
	if s1 == nil || s2 == nil {
		return
	}
	// identify which share is the first table's (contains param[0] weights)
	if !strings.Contains(s1.String(), w0) || (strings.Contains(s1.String(), w1) && !strings.Contains(s2.String(), w1)) {
		s1, s2 = s2, s1
	}
	parseShare := func(s *Term) (wi *Term, total *Term, scale string, ok bool) {
		s = stripConv(s)
		if s.isBin("*") {
			for k := 0; k < 2; k++ {
				if s.Args[k].Op == "const" && s.Args[1-k].isBin("/") {
					d := s.Args[1-k]
					return stripConv(d.Args[0]), stripConv(d.Args[1]), s.Args[k].Name, true
				}
			}
		}
		return nil, nil, "", false
	}
	w1i, tot1, sc1, ok1 := parseShare(s1)
	w2i, tot2, sc2, ok2 := parseShare(s2)
	if !ok1 || !ok2 {
		c.undecided("TERM-COMP", "share = int(w/total*10000)", avg.At.Pos(), "shares are not int(float(w)/float(total)*scale): "+short(s1.String())+" / "+short(s2.String()))
		return
	}
	if sc1 != sc2 {
		c.bad("TERM-COMP", "share = int(w/total*10000)", avg.At.Pos(), "the two shares are scaled differently ("+sc1+" vs "+sc2+"): the mean and the symmetric cut-off mix units")
	} else {
		c.ok("TERM-COMP", "share = int(w/total*10000)", avg.At.Pos(), "both shares are int(float(w)/float(total)*"+sc1+")")
	}
	tripList := "collect(" + t0 + ")"
	okW1 := w1i.String() == "zip(collect("+w0+"), "+tripList+")" || w1i.String() == "each(collect("+w0+"))" || w1i.String() == w0
	ad1, okS1 := sumAddend(tb, tot1)
	st1, why1 := holds, ""
	switch {
	case !okW1:
		st1, why1 = unknown, "first share uses weight "+short(w1i.String())
		if strings.Contains(w1i.String(), w1) && !strings.Contains(w1i.String(), w0) {
			st1, why1 = broken, "the first share is computed from the second table's weights"
		}
	case !okS1:
		st1, why1 = unknown, "the first share's total "+short(tot1.String())+" is not a recognised running sum"
	case ad1.String() != w0:
		st1, why1 = unknown, "the first share's total sums "+short(ad1.String())
		if len(opaqueParts(ad1, vocabOf(w0, w1))) == 0 && localDiff(ad1, w0) {
			st1 = broken
		}
	}
	c.judge(st1, "TERM-COMP", "share1 = w/sum over the same amino acid (table 1)", avg.At.Pos(), "first share divides the codon's weight by the sum of its amino acid's weights in the first table", why1)
	// second: weights collected under letter== && triplet==, total summed at the same site
	st2, why2 := unknown, "second share uses weight "+short(w2i.String())
	var c2 *Cond
	var w2src *Term
	switch {
	case w2i.Op == "zip" && w2i.Args[0].Op == "collect":
		w2src = w2i.Args[0]
	case w2i.Op == "each" && w2i.Args[0].Op == "collect":
		w2src = w2i.Args[0]
	}
	if w2src != nil && len(w2src.Args) == 1 && w2src.Args[0].String() == w1 {
		if ins, ok := w2src.V.(ssa.Instruction); ok {
			fn := ins.Parent()
			// the append site's condition in the root's vocabulary
			for _, site := range topAppendSites(w2src) {
				if view.has(site.At.Parent()) {
					c2 = view.cond(site.At.Parent(), site.At.Block())
				}
			}
			_ = fn
		}
		letterEq, tripEq := "binop[==]("+l0+", "+l1+")", "binop[==]("+t0+", "+t1+")"
		switch {
		case c2 == nil:
			why2 = "the condition under which second-table weights are collected was not found"
		case c2.implies(letterEq, false) && c2.implies(tripEq, false):
			st2 = holds
		case c2.implies(tripEq, false) && !strings.Contains(c2.String(), "field[Letter]"):
			st2, why2 = broken, "second-table weights are matched by triplet only, not by amino acid: the shares of table 2 are not taken over the same amino acid"
		case c2.implies(letterEq, false) && !strings.Contains(c2.String(), "field[Triplet]"):
			st2, why2 = broken, "second-table weights are matched by amino-acid letter only, not by triplet: every codon of the amino acid is paired with every codon"
		default:
			why2 = "second-table weights are collected under " + short(c2.String())
		}
	}
	if st2 == holds {
		ad2, okS2 := sumAddend(tb, tot2)
		switch {
		case !okS2:
			st2, why2 = unknown, "the second share's total "+short(tot2.String())+" is not a recognised running sum"
		case ad2.String() != w1:
			st2, why2 = unknown, "the second share's total sums "+short(ad2.String())+"; want the matched weights of the second table"
			if len(opaqueParts(ad2, vocabOf(w0, w1))) == 0 && localDiff(ad2, w1) {
				st2 = broken
			}
		}
	}
	c.judge(st2, "TERM-COMP", "share2 = matching codon's w/sum (table 2, matched by letter and triplet)", avg.At.Pos(), "second share uses the second table's codon with the same letter and triplet, over the sum of the matched weights", why2)
	// cut-off: 0 iff share1 < cut or share2 < cut, decided on a grid around the cut
	cut := "conv[int](binop[*](const[10000], param[2]))"
	zc := pathCondFromDom(tb, zero.At.Block(), avg.At.Block())
	ac := pathCondFromDom(tb, avg.At.Block(), zero.At.Block())
	if wt.Op == "phi" {
		zc = pathCond(tb, cmp.Blocks[0], zero.At.Block())
		ac = pathCond(tb, cmp.Blocks[0], avg.At.Block())
	}
	stC, whyC := unknown, "the zeroing condition was not found"
	if zc != nil && ac != nil {
		stC = holds
		s1s, s2s := s1.String(), s2.String()
		// the threshold the shares are compared with: whatever mentions cutOff in those comparisons
		for _, cd := range []*Cond{zc, ac} {
			for _, at := range cd.atoms() {
				if at.Atom.Op != "binop" || len(at.Atom.Args) != 2 {
					continue
				}
				for k := 0; k < 2; k++ {
					sh, th := stripConv(at.Atom.Args[k]), at.Atom.Args[1-k]
					if (sh.String() == s1s || sh.String() == s2s) && th.contains(func(x *Term) bool { return x.isParam(2) }) {
						cut = th.String()
						for _, x := range []float64{0.255, 0.1234, 0.5, 0.0999, 0.9} {
							if v, ok := numVal(th, map[string]float64{"param[2]": x}); ok && v != math.Trunc(10000*x) && stC != broken {
								stC, whyC = broken, fmt.Sprintf("for cutOff = %v the shares (scaled to 10000) are compared with %v; the cut-off on that scale is %v: codons between the two are kept although they are rarer than the cut-off", x, v, math.Trunc(10000*x))
							}
						}
					}
				}
			}
		}
		for _, a1 := range []float64{4, 5, 6} {
			for _, a2 := range []float64{4, 5, 6} {
				env := map[string]float64{s1s: a1, s2s: a2, cut: 5, "conv[int](" + s1s + ")": a1, "conv[int](" + s2s + ")": a2}
				ev := func(t *Term) (bool, bool) {
					if isIterCond(t) {
						return false, false
					}
					return sampleAtom(t, env)
				}
				zv, zk := evalCond3(zc, ev)
				av, ak := evalCond3(ac, ev)
				wantZero := a1 < 5 || a2 < 5
				switch {
				case stC == broken:
				case zk && ak && zv == wantZero && av == !wantZero:
				case (zk && zv != wantZero) || (ak && av == wantZero):
					rel := func(v float64) string {
						switch {
						case v < 5:
							return "below"
						case v == 5:
							return "equal to"
						}
						return "above"
					}
					stC, whyC = broken, fmt.Sprintf("with share1 %s and share2 %s the cut-off the weight is %s; the property zeroes a codon exactly when a share is strictly below the cut-off", rel(a1), rel(a2), map[bool]string{true: "kept although a share is below it", false: "zeroed although no share is below it"}[wantZero])
				default:
					if stC == holds {
						stC, whyC = unknown, "the zeroing condition "+short(zc.String())+" could not be evaluated on the shares and int(10000*cutOff)"
					}
				}
			}
		}
	}
	c.judge(stC, "TERM-COMP", "0 iff share1<cut or share2<cut, cut=int(10000*cutOff)", zero.At.Pos(), "decided on the 3x3 grid of shares just below / at / above the cut: zero exactly when either share is strictly below int(10000*cutOff), else the mean", whyC)
}

// pathCondFromDom: condition of block b relative to the nearest common dominator of b and other.
func pathCondFromDom(tb *TermBuilder, b, other *ssa.BasicBlock) *Cond {
	d := b
	for d != nil && !(d.Dominates(b) && d.Dominates(other)) {
		d = d.Idom()
	}
	if d == nil {
		return nil
	}
	return pathCond(tb, d, b)
}


// privateCopy: the result's list f is a fresh slice filled by copy(). Decides the obligation when the copy is
// visibly of the first table's list: held when the slice is sized by that same list, broken when it is sized
// by the length of a different list (shorter: codons are dropped; longer: empty strings are appended).
// Returns false when the shape is not this one (the caller's comparison applies).
func privateCopy(c *Ctx, tb *TermBuilder, fn *ssa.Function, rule, f string, got *Term) bool {
	if got == nil || got.Op != "makeslice" || got.V == nil || len(got.Args) == 0 {
		return false
	}
	want := "field[" + f + "](param[0])"
	var src *Term
	n := 0
	eachInstr(fn, func(i ssa.Instruction) {
		cl, ok := i.(*ssa.Call)
		if !ok || calleeName(cl) != "builtin:copy" || len(cl.Call.Args) != 2 {
			return
		}
		if d := tb.T(cl.Call.Args[0]); d.V == got.V || d.String() == got.String() && d.Op == "makeslice" && d.V == got.V {
			src = tb.T(cl.Call.Args[1])
			n++
		}
	})
	if n != 1 || src == nil || src.String() != want {
		return false
	}
	size := got.Args[0].String()
	switch {
	case size == "call[builtin:len]("+want+")":
		c.ok(rule, f+" from first table", fn.Pos(), f+" is a private copy of the first table's list, sized by that list")
		return true
	case strings.HasPrefix(size, "call[builtin:len](field[") && strings.HasSuffix(size, "(param[0]))") || strings.HasSuffix(size, "(param[1]))") && strings.HasPrefix(size, "call[builtin:len](field["):
		c.bad(rule, f+" from first table", fn.Pos(), "the result's "+f+" is copied from the first table's "+f+" into a slice sized by "+short(size)+": when the two lists differ in length the codons are cut short or padded with empty strings")
		return true
	}
	return false
}
